#!/usr/bin/env python3
"""Regenerates /verif/MANIFEST.json from the table below (keeps the manifest valid at all times).
Usage: python3 tools/mkmanifest.py   (validates against /root/.vp/MANIFEST.schema.json when available)"""
import json
import os
import sys

VERIF = os.path.dirname(os.path.dirname(os.path.abspath(__file__)))

# id -> (technique, level text, level note, design ref)
CHECKS = {
    "C01": ("property-based testing (Hypothesis), oracle = independent reference HMM (exhaustive walk enumeration "
            "cross-checked with an own Viterbi)",
            "Generated maps (<=12 nodes, incl. linked parallel edges), traces (<=12 points; one case in 150 has 700-900 observations, decided by the reference Viterbi alone) and emitting-only first-order "
            "configurations of the three modelled matcher families are matched on the in-memory map (and on SQLite for integer labels); matched prefix length, "
            "best probability and admissibility/optimality of the returned walk are compared with an exhaustive enumeration "
            "of all admissible walks under an independently written model. Exploration.",
            "trusted: hmmref.py (two evaluators cross-checked on every small case); decisions within 1e-9 of a cut-off are "
            "skipped; open finding F1 excluded by construction on the in-memory map and counted",
            "DESIGN.md §2 C01"),
    "C15": ("property-based testing (Hypothesis), differential oracle (lat/lon vs locally projected planar case)",
            "Street-scale planar cases (edges >= 10 m, noise >= 5 m) are matched as they are and placed at a generated origin "
            "(|lat| <= 60, any longitude incl. maps straddling the antimeridian) on a lat/lon map with the same parameters in metres: "
            "same index, probability within 1e-2 relative + 1e-3 absolute + the propagated 0.1 m along-edge position noise for the "
            "distance family (measured use of the tolerance is reported). Exploration.",
            "trusted: local equirectangular placement (geomsph.local_to_latlon); cases adjacent to a discontinuity of the model "
            "in the relative position (edge-end rule of node mode, going-back decision) are skipped and counted",
            "DESIGN.md §2 C15"),
    "C16": ("property-based testing (Hypothesis), metamorphic oracle (relabel / reorder / axis swap / 2^k scaling / translation)",
            "The transformed case must give the same index and probability (1e-9; translation 1e-6) and the renamed path unless "
            "probabilities tie; scalings over 2^-30..2^30 of coordinates and all distance parameters. Exploration.",
            "trusted: the transformations themselves (exact in floating point for 2^k; translation offsets exactly representable)",
            "DESIGN.md §2 C16"),
    "C19": ("[thorough: + atheris coverage-guided bridge] property-based testing (Hypothesis), differential oracle (logger at ERROR vs DEBUG, NullHandler / StreamHandler)",
            "Single calls and histories (general, long non-emitting, hash-colliding and dead-end detour families) are run at both log levels: returned states (incl. their type), index, path keys and every "
            "probability on the path must be identical. Exploration.",
            "trusted: logging level and handlers are restored after every case",
            "DESIGN.md §2 C19"),
    "C17": ("[thorough: + atheris coverage-guided bridge] property-based testing (Hypothesis), oracle = totality predicate + metamorphic pairs-vs-triples relation",
            "Generated maps incl. duplicate locations / zero-length edges, traces exactly on nodes and roads, repeats, "
            "outliers, extreme noise values, both metrics, both backends, four matcher families: match() must return a (list, int) pair without raising and the "
            "(lat, lon, time) form of the trace must give the identical canonical result. Exploration.",
            "trusted: the generators only build finite maps whose neighbour labels are nodes (dangling labels are outside "
            "the API's notion of a map)",
            "DESIGN.md §2 C17"),
    "C02": ("[thorough: + atheris coverage-guided bridge] property-based testing (Hypothesis), oracle = independent replay of the documented model along the returned path; "
            "operation histories as data",
            "Every entry of the returned best path (log-probability, observation distance, length, travelled distances, matched "
            "position) is recomputed by an independently written model from the map, the trace and the configuration, after single "
            "calls and after generated match/extend/widen/rematch histories, for all four families (simple, node-and-edge, distance, "
            "NewsonKrumm) incl. long non-emitting runs and moves between linked parallel edges. Exploration.",
            "trusted: hmmref.py + geom2d.py; for non-emitting edge states any valid witness pair is accepted; 1e-8 relative",
            "DESIGN.md §2 C02"),
    "C03": ("[thorough: + atheris coverage-guided bridge] property-based testing (Hypothesis), oracle = validity predicate over (states, index, best path, lattice) + "
            "independent start-candidate scan",
            "Alignment of the best path with the observations, the state list (unique on/off), the truthfulness of the returned "
            "index against the lattice, and 'empty iff no admissible start' against an independent full scan; after single calls, "
            "after a different (decoy) trace was matched first on the same matcher, and after every call of generated "
            "extend / widen / rematch histories; four matcher families (incl. Newson-Krumm). Exploration.",
            "trusted: hmmref.py start scan; trailing non-emitting run after an early stop accepted (documented); F1 excluded from "
            "the empty-iff clause only",
            "DESIGN.md §2 C03"),
    "C04": ("[thorough: + atheris coverage-guided bridge] property-based testing (Hypothesis), oracle = validity predicate against the generating adjacency model; histories",
            "Every state of the best path must be a node / directed edge of the generating model and every consecutive pair a move "
            "the map offers (incl. linked parallel edges); the nodes-only view must be computable and pairwise adjacent; checked "
            "after every operation of generated histories. Exploration.",
            "trusted: the adjacency model that generated the map (never the map's own answers)",
            "DESIGN.md §2 C04"),
    "C05": ("property-based testing (Hypothesis), oracle = replay under the reference model + spherical reference for lat/lon",
            "Reported and true distances against max_dist / max_dist_init, reported and model normalised probability against "
            "min_prob_norm, matched positions against exact nearest points (planar) / the spherical nearest point (lat/lon); also "
            "when the matcher object was used for another trace before. Exploration.",
            "trusted: hmmref.py, geom2d.py, geomsph.py; lat/lon cut-off comparisons use the package's own distance",
            "DESIGN.md §2 C05"),
    "C06": ("property-based testing (Hypothesis), differential oracle (non_emitting_states off vs on)",
            "First-order, unpruned configurations of all families are run with and without non-emitting states on generated "
            "cases, half of them built so that non-emitting states are needed: the matched prefix must not shrink and the best "
            "probability of complete matches must not drop. Exploration.",
            "trusted: nothing beyond the package's public results; 1e-9 slack",
            "DESIGN.md §2 C06"),
    "C07": ("[thorough: + atheris coverage-guided bridge] property-based testing (Hypothesis), per-column snapshot invariant through the public tqdm= callable + differential "
            "against the unpruned run + monotonicity over widening histories",
            "At the moment a column is about to be expanded the expanded candidates must be a top-k prefix (k within [min(W,n), "
            "W + ties]); a pruned / widened run is compared with a fresh unpruned run (prefix, probability, equality at full "
            "width) and widening must be monotone. Exploration.",
            "trusted: snapshot taken by our own iterator wrapper passed as tqdm=; open finding KF-C07-NE recognised by signature",
            "DESIGN.md §2 C07"),
    "C08": ("[thorough: + atheris coverage-guided bridge] property-based testing (Hypothesis), differential oracle (incremental vs one-shot)",
            "A trace cut at 1-5 generated points (repeats allowed: continuation calls that bring no new observation) is matched incrementally with expand=True on one matcher (possibly used for another trace before) and in one call on a "
            "fresh matcher: index, best path (ties excepted) and probability must agree. Exploration.",
            "trusted: nothing beyond public results; tie = probabilities equal to 1e-12",
            "DESIGN.md §2 C08"),
    "C09": ("[thorough: + atheris coverage-guided bridge] model-based property testing of operation histories (Hypothesis, sequences as data), structural invariant over the "
            "whole lattice after every step",
            "Generated sequences of match / extend / widen / rematch / continue_with_distance with arbitrary arguments; after "
            "each applied operation every lattice entry is checked: filed where it claims, predecessor present in the directly "
            "preceding layer, monotone probability, correct length, probability <= 1, no live entry with a stopped predecessor. "
            "Exploration.",
            "trusted: reads matcher.lattice (public attribute); preconditions of the operations as documented",
            "DESIGN.md §2 C09"),
    "C10": ("property-based testing (Hypothesis) with a pool of worker processes under different PYTHONHASHSEED values "
            "(differential across processes) + metamorphic permutation of listing order",
            "Each generated case is matched by 5 persistent workers with different hash seeds and the canonical results must be "
            "identical (strict); in-process the node and neighbour order is permuted and index / probability must not change. "
            "Exploration.",
            "trusted: subprocess plumbing; hash seeds are fixed values plus one derived from VERIF_SEED",
            "DESIGN.md §2 C10"),
    "C11": ("property-based testing (Hypothesis), oracle = exhaustive scan of the generating model with independent geometry "
            "(exact rational in the plane, unit-vector spherical for lat/lon)",
            "Generated contents on both backends, three coordinate magnitudes (unit, projected metres ~5e6, degrees) and queries "
            "drawn relative to the content (node at r-eps along an axis, node exactly at r, long edge through the disc, near an "
            "edge, random, unbounded radius, content across the antimeridian; SQLite maps also loaded call by call from generated load plans, in-memory maps also queried while still growing, one case in 300 on a 1156-1600 node grid), with max_elmt: returned set, distances, projections, relative positions, order and truncation are "
            "compared with a full scan. Exploration.",
            "trusted: geom2d.py / geomsph.py; stated don't-care bands around the radius; open finding F1 recognised by signature only",
            "DESIGN.md §2 C11"),
    "C12": ("property-based testing (Hypothesis), differential oracle (InMemMap vs SqliteMap vs generating model)",
            "The same integer-labelled graph is loaded into both backends (SQLite in bulk or call by call from a generated load plan with per-call flags, repeated nodes/edges and re-index calls); size, labels, coordinates, node and edge neighbours, "
            "full edge listing, bounding box, box-restricted node listing (boxes with nodes exactly on the border) are compared "
            "with each other and with the model, and the same edge-based matcher is run on both (index and probability). Exploration.",
            "trusted: the generating adjacency model; hash-colliding edge ids (labels -1/-2) are an open finding, excluded by its "
            "precondition and counted",
            "DESIGN.md §2 C12"),
    "C18": ("model-based property testing of operation histories (Hypothesis, operation sequences as data), round-trip oracle",
            "Generated histories of single/bulk inserts with and without deferred commit/index, repeated inserts of known nodes and edges, connect_parallelroads, re-indexing, commits, a prior map of the other metric under the same file name, and 1-4 "
            "close/reopen (or dump/load) cycles on SQLite files and InMemMap pickles; at every reopen the metric flag, the module "
            "of the distance functions, projection settings and every listing / neighbour / spatial answer must equal the answers "
            "before closing and the model. Exploration.",
            "trusted: sqlite3, pickle; the reopen step first meets the documented obligations of the deferred modes",
            "DESIGN.md §2 C18"),
    "C13": ("property-based testing (Hypothesis) + exhaustive small-grid enumeration + atheris bridge, "
            "oracle = exact rational geometry",
            "Generated float families (general, scaled, constructed parallel/collinear/touching/zero-length/"
            "near-parallel) and every 4-point configuration of an integer grid are compared with an exact "
            "rational-arithmetic reference for distance, witnesses and relative positions; box containment by "
            "sampling the circle. Exploration: no counter-example inside the stated bounds, exhaustive on the grid.",
            "trusted: fractions.Fraction reference (geom2d.py), CPython float arithmetic; tolerance 1e-7*max(1,extent)",
            "DESIGN.md §2 C13"),
    "C14": ("property-based testing (Hypothesis) + atheris bridge, oracle = independent unit-vector spherical geometry, "
            "metamorphic end-point swap",
            "Distance, destination, point-to-segment, segment-to-segment and box are compared with an independent 3-D "
            "unit-vector computation on the same sphere at generated origins (|lat|<=60), segment lengths 0.1 m-3 km and "
            "query points within 3 lengths; swap invariance and box containment are checked on every case. Exploration.",
            "trusted: geomsph.py (Kahan angle formula, cancellation-free cross product); tolerances 1e-6 m (distance), "
            "0.25 m + 1e-6 L (projections), stated in evidence",
            "DESIGN.md §2 C14"),
    "C20": ("property-based testing (Hypothesis) + atheris bridge, oracle = validity predicate over the output",
            "Generated traces (1-6 points, repeated points, exact-multiple spacings, both metrics, street scale and long-haul legs up to 13 000 km) are interpolated and the "
            "output is checked structurally: originals kept in order, inserted points on the straight / great-circle "
            "connection and monotone along it, no gap above the spacing. Exploration.",
            "trusted: geom2d.py / geomsph.py; tolerance 1e-9 relative (planar), 1e-4 m + 1e-7 L (lat/lon)",
            "DESIGN.md §2 C20"),
}

PENDING_REASON = "check not built yet in this revision of /verif (planned, see DESIGN.md §2); no claim is made"


def main():
    sys.path.insert(0, VERIF)
    built = sorted(CHECKS)
    allp = ["C%02d" % i for i in range(1, 21)]
    checks = []
    for pid in built:
        tech, text, note, ref = CHECKS[pid]
        checks.append({
            "property_id": pid,
            "quick_cmd": f"./check {pid} --tier quick",
            "thorough_cmd": f"./check {pid} --tier thorough",
            "evidence_file": f"evidence/{pid}.json",
            "replay_cmd_template": f"./check {pid} --replay {{path}}",
            "engine": "lmmverif",
            "level_claimed": {"category": "exploration", "text": text, "design_ref": ref},
            "level_note": note,
            "technique": tech,
        })
    manifest = {
        "version": 1,
        "setup_cmd": "/venv/bin/pip install -q --no-index --find-links /opt/veriftools/wheels --target /verif/.deps "
                     "--upgrade hypothesis jsonschema atheris",
        "hooks": {
            "guard": "LMM_VERIF",
            "enable": "no source hooks: every observation goes through the public API (match() result, matcher.lattice, "
                      "the tqdm= callable of match()); checks import the package from /repo's working tree",
            "baseline_off_cmd": "cd /repo && /venv/bin/python -m pytest -ra -q -p no:cacheprovider --timeout=900 "
                                "--continue-on-collection-errors",
            "source_commits": [],
            "add_only": True,
        },
        "engines": [
            {"name": "lmmverif", "path": "lmmverif/", "serves_properties": built,
             "kind_free_text": "Hypothesis 6.168 property-based testing, sharded over processes; exhaustive small-scope "
                               "enumeration; atheris/libFuzzer bridge through fuzz_one_input; independent reference "
                               "models (geometry, HMM) as oracles"},
        ],
        "checks": checks,
        "not_applicable": [{"property_id": p, "reason": PENDING_REASON} for p in allp if p not in CHECKS],
        "notes": "Exit codes: 0 held / 1 VIOLATION / 2 harness error. VERIF_SEED selects the Hypothesis seeds; "
                 "VERIF_REPO (default /repo) points the checks at another tree for sensitivity runs. "
                 "known_findings.json lists open findings (suppressed by signature) and fixed ones (never suppressed).",
    }
    out = os.path.join(VERIF, "MANIFEST.json")
    try:
        sys.path.append(os.path.join(VERIF, ".deps"))
        import jsonschema
        with open("/root/.vp/MANIFEST.schema.json") as f:
            jsonschema.validate(manifest, json.load(f))
    except (ImportError, FileNotFoundError):
        pass
    with open(out, "w") as f:
        json.dump(manifest, f, indent=1)
        f.write("\n")
    print(f"wrote {out}: {len(checks)} checks, {len(manifest['not_applicable'])} not_applicable")


if __name__ == "__main__":
    main()
