#!/usr/bin/env python3
"""Regenerates /verif/MANIFEST.json from the table below (keeps the manifest valid at all times).
Usage: python3 tools/mkmanifest.py   (validates against /root/.vp/MANIFEST.schema.json when available)"""
import json
import os
import sys

VERIF = os.path.dirname(os.path.dirname(os.path.abspath(__file__)))

# id -> (technique, level text, level note, design ref)
CHECKS = {
    "C13": ("property-based testing (Hypothesis) + exhaustive small-grid enumeration + atheris bridge, "
            "oracle = exact rational geometry",
            "Generated float families (general, scaled, constructed parallel/collinear/touching/zero-length/"
            "near-parallel) and every 4-point configuration of an integer grid are compared with an exact "
            "rational-arithmetic reference for distance, witnesses and relative positions; box containment by "
            "sampling the circle. Exploration: no counter-example inside the stated bounds, exhaustive on the grid.",
            "trusted: fractions.Fraction reference (geom2d.py), CPython float arithmetic; tolerance 1e-7*max(1,extent)",
            "DESIGN.md §2 C13"),
}

PENDING_REASON = "check not built yet in this revision of /verif (planned, see DESIGN.md §2); no claim is made"


def main():
    sys.path.insert(0, VERIF)
    built = sorted(CHECKS)
    allp = ["C%02d" % i for i in range(1, 21)]
    checks = []
    for pid in built:
        tech, text, note, ref = CHECKS[pid]
        checks.append({
            "property_id": pid,
            "quick_cmd": f"./check {pid} --tier quick",
            "thorough_cmd": f"./check {pid} --tier thorough",
            "evidence_file": f"evidence/{pid}.json",
            "replay_cmd_template": f"./check {pid} --replay {{path}}",
            "engine": "lmmverif",
            "level_claimed": {"category": "exploration", "text": text, "design_ref": ref},
            "level_note": note,
            "technique": tech,
        })
    manifest = {
        "version": 1,
        "setup_cmd": "/venv/bin/pip install -q --no-index --find-links /opt/veriftools/wheels --target /verif/.deps "
                     "--upgrade hypothesis jsonschema atheris",
        "hooks": {
            "guard": "LMM_VERIF",
            "enable": "no source hooks: every observation goes through the public API (match() result, matcher.lattice, "
                      "the tqdm= callable of match()); checks import the package from /repo's working tree",
            "baseline_off_cmd": "cd /repo && /venv/bin/python -m pytest -ra -q -p no:cacheprovider --timeout=900 "
                                "--continue-on-collection-errors",
            "source_commits": [],
            "add_only": True,
        },
        "engines": [
            {"name": "lmmverif", "path": "lmmverif/", "serves_properties": built,
             "kind_free_text": "Hypothesis 6.168 property-based testing, sharded over processes; exhaustive small-scope "
                               "enumeration; atheris/libFuzzer bridge through fuzz_one_input; independent reference "
                               "models (geometry, HMM) as oracles"},
        ],
        "checks": checks,
        "not_applicable": [{"property_id": p, "reason": PENDING_REASON} for p in allp if p not in CHECKS],
        "notes": "Exit codes: 0 held / 1 VIOLATION / 2 harness error. VERIF_SEED selects the Hypothesis seeds; "
                 "VERIF_REPO (default /repo) points the checks at another tree for sensitivity runs. "
                 "known_findings.json lists open findings (suppressed by signature) and fixed ones (never suppressed).",
    }
    out = os.path.join(VERIF, "MANIFEST.json")
    try:
        sys.path.append(os.path.join(VERIF, ".deps"))
        import jsonschema
        with open("/root/.vp/MANIFEST.schema.json") as f:
            jsonschema.validate(manifest, json.load(f))
    except (ImportError, FileNotFoundError):
        pass
    with open(out, "w") as f:
        json.dump(manifest, f, indent=1)
        f.write("\n")
    print(f"wrote {out}: {len(checks)} checks, {len(manifest['not_applicable'])} not_applicable")


if __name__ == "__main__":
    main()
