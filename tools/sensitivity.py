#!/usr/bin/env python3
"""Hand-made semantic mutations (DESIGN.md §1.8 / the "S" lists of §2): each is applied to a scratch copy of /repo, the 43
baseline tests are run on the copy, then the listed checks (quick tier) are pointed at it. Writes SENSITIVITY.md.

  tools/sensitivity.py [-j N] [name-filter ...]
"""
import concurrent.futures
import os
import re
import subprocess
import sys

VERIF = os.path.dirname(os.path.dirname(os.path.abspath(__file__)))
B = "leuvenmapmatching/matcher/base.py"
D = "leuvenmapmatching/matcher/distance.py"
S = "leuvenmapmatching/matcher/simple.py"
E = "leuvenmapmatching/util/dist_euclidean.py"
L = "leuvenmapmatching/util/dist_latlon.py"
I = "leuvenmapmatching/map/inmem.py"
Q = "leuvenmapmatching/map/sqlite.py"

MUTANTS = [
    # name, file, old, new, checks
    ("update_lt_to_gt", B, "or (self.stop == m_next.stop and self.logprob < m_next.logprob)", "or (self.stop == m_next.stop and self.logprob > m_next.logprob)", ["C01"]),
    ("stop_rule_length", B, "new_stop |= self.matcher.do_stop(new_logprob / new_length, dist,", "new_stop |= self.matcher.do_stop(new_logprob / self.length, dist,", ["C01", "C05"]),
    ("max_dist_ge", B, "if dist > self.max_dist:", "if dist >= self.max_dist:", ["C01"]),
    ("no_uturn", B, "if m.edge_m.l2 != nbr_label2 and m.edge_m.l1 != nbr_label1:", "if m.edge_m.l2 != nbr_label2 and m.edge_m.l1 != nbr_label2:", ["C01"]),
    ("ne_emission_noise", D, "        if is_ne:\n            sigma = self.sigma_ne", "        if is_ne and False:\n            sigma = self.sigma_ne", ["C02"]),
    ("ne_min_dropped_deep", B, "new_logprobne = min(self.logprobne, new_logprob_delta)", "new_logprobne = min(self.logprobne, new_logprob_delta) if obs_ne < 2 else self.logprobne", ["C02"]),
    ("ne_ds_not_accumulated", D, "            d_x += prev_m.d_s", "            d_x += 0", ["C02"]),
    ("goback_from_prev_other", S, "                for m in prev_m.prev:", "                for m in prev_m.prev_other:", ["C02"]),
    ("ne_length_factor_dropped", B, "new_logprobe = self.logprobe + self.matcher.ne_length_factor_log", "new_logprobe = self.logprobe", ["C02"]),
    ("start_idx_off_by_one", B, "            start_idx = self.early_stop_idx - 1\n", "            start_idx = max(self.early_stop_idx - 2, 0)\n", ["C03", "C01"]),
    ("unique_ignored", B, "        if unique:\n            self.node_path = []", "        if unique or len(node_path) > 3:\n            self.node_path = []", ["C03"]),
    ("edges_nbrto_reversed", I, "        for l3, p3 in self.nodes_nbrto(l2):\n            results.append((l2, p2, l3, p3))\n        # Edges that are in parallel", "        for l3, p3 in self.nodes_nbrto(l2):\n            results.append((l2, p2, l3, p3) if l3 != l1 else (l1, p1, l2, p2))\n        # Edges that are in parallel", ["C04", "C01"]),
    ("ne_successor_filter", B, "                    if m.edge_m.l1 != nbr_label2 and m.edge_m.l2 != nbr_label2:\n                        edge_m = Segment(nbr_label1, nbr_loc1, nbr_label2, nbr_loc2)\n                        edge_o = Segment(f\"O{obs_idx+1}\", obs_next)", "                    if m.edge_m.l2 != nbr_label2:\n                        edge_m = Segment(nbr_label2, nbr_loc2, nbr_label1, nbr_loc1)\n                        edge_o = Segment(f\"O{obs_idx+1}\", obs_next)", ["C04"]),
    ("init_dist_uses_max_dist", B, "nodes = self.map.edges_closeto(self.path[0], max_dist=self.max_dist_init)", "nodes = self.map.edges_closeto(self.path[0], max_dist=max(self.max_dist_init, self.max_dist))", ["C05", "C01"]),
    ("dps_args_swapped", B, "dist, proj_m, t_m = self.matcher.map.distance_point_to_segment(edge_o.p1, edge_m.p1, edge_m.p2)", "dist, proj_m, t_m = self.matcher.map.distance_point_to_segment(edge_o.p1, edge_m.p2, edge_m.p1)", ["C05", "C02"]),
    ("ne_overwrite_unconditional", B, "                                if m_next.logprob > lattice_best[m_next.shortkey].logprob:\n                                    lattice_best[m_next.shortkey] = m_next\n                                    # lattice_toinsert.append(m_next)\n                                    self.lattice[obs_idx].upsert(m_next)\n                                elif __debug__ and logger.isEnabledFor(logging.DEBUG):\n                                    m_next.stop = True\n                                    # lattice_toinsert.append(m_next)\n                                    self.lattice[obs_idx].upsert(m_next)\n                            else:\n                                lattice_best[m_next.shortkey] = m_next\n                                # lattice_toinsert.append(m_next)\n                                self.lattice[obs_idx].upsert(m_next)\n                            if __debug__:\n                                logger.debug(str(m_next))\n                    else:\n                        if __debug__:\n                            logger.debug(self.matching.repr_static(('x', '{} < going back'", "                                if True:\n                                    lattice_best[m_next.shortkey] = m_next\n                                    self.lattice[obs_idx].dict(0)[m_next.key] = m_next\n                            else:\n                                lattice_best[m_next.shortkey] = m_next\n                                # lattice_toinsert.append(m_next)\n                                self.lattice[obs_idx].upsert(m_next)\n                            if __debug__:\n                                logger.debug(str(m_next))\n                    else:\n                        if __debug__:\n                            logger.debug(self.matching.repr_static(('x', '{} < going back'", ["C06"]),
    ("prune_ascending", B, "ms = sorted(cur_lattice, key=lambda t: t.prune_value, reverse=True)", "ms = sorted(cur_lattice, key=lambda t: t.prune_value, reverse=False)", ["C07"]),
    ("prune_no_tie_extension", B, "            while cur_width < len(ms) and (ms[cur_width].prune_value == m_last.prune_value or", "            while False and cur_width < len(ms) and (ms[cur_width].prune_value == m_last.prune_value or", ["C07", "C10"]),
    ("prune_never_postpones", B, "                    m.delayed = expand_upto + 1  # expand later", "                    m.delayed = expand_upto  # expand later", ["C07"]),
    ("extend_no_reactivation", B, "                    self.lattice[len(self.path) - 1].set_delayed(self.expand_now)", "                    pass", ["C08"]),
    ("ne_expand_flag_dropped", B, "                self._match_non_emitting_states(obs_idx - 1, expand=expand)", "                self._match_non_emitting_states(obs_idx - 1, expand=False)", ["C08", "C07"]),
    ("update_keeps_old_prev", B, "        self.prev = m_other.prev\n", "        self.prev = m_other.prev if self.obs_ne == 0 else self.prev\n", ["C09", "C02"]),
    ("emitting_length_not_incremented", B, "            new_length = self.length + 1", "            new_length = self.length + (1 if self.obs_ne == 0 else 0)", ["C09", "C02", "C05"]),
    ("final_choice_by_id", B, "            for layer in self.lattice[start_idx].o:\n                for m in layer.values():  # type:BaseMatching\n                    if not m.stop and (node_max is None or\n", "            for layer in self.lattice[start_idx].o:\n                for m in sorted(layer.values(), key=lambda mm: hash(mm.cname)):  # type:BaseMatching\n                    if not m.stop and (node_max is None or\n", ["C10"]),
    ("edges_prefilter_both_ends", Q, "            q += ' AND ei.maxX >= ? AND ei.minX <= ? AND ei.maxY >= ? AND ei.minY <= ?'\n            c.execute(q, (min_x, max_x, min_y, max_y))", "            q += ' AND ei.minX >= ? AND ei.maxX <= ? AND ei.maxY >= ? AND ei.minY <= ?'\n            c.execute(q, (min_x, max_x, min_y, max_y))", ["C11", "C01"]),
    ("nodes_closeto_le", I, "            if dist < max_dist:\n                results.append((dist, label, oloc))", "            if dist <= max_dist:\n                results.append((dist, label, oloc))", ["C11"]),
    ("closeto_sorted_desc", Q, "                results.append((dist, key_a, loc_a, key_b, loc_b, pi, ti))\n        results.sort()", "                results.append((dist, key_a, loc_a, key_b, loc_b, pi, ti))\n        results.sort(reverse=len(results) > 3)", ["C11"]),
    ("sqlite_coords_swapped", Q, "        c.execute('SELECT y, x FROM nodes WHERE id = ?', (node_key, ))", "        c.execute('SELECT x, y FROM nodes WHERE id = ?', (node_key, ))", ["C12"]),
    ("sqlite_nbrs_id1", Q, "        q = ('SELECT e.id2, n2.y, n2.x FROM edges e '\n             'INNER JOIN nodes n2 ON n2.id = e.id2 '\n             'WHERE e.id1 = ?')", "        q = ('SELECT e.id2, n2.y, n2.x FROM edges e '\n             'INNER JOIN nodes n2 ON n2.id = e.id2 '\n             'WHERE e.id1 = ? AND e.id2 > -1000000 ORDER BY e.id2 LIMIT 3')", ["C12"]),
    ("sqlite_box_strict", Q, "'AND n.x >= ? AND n.x <= ? AND n.y >= ? AND n.y <= ?')", "'AND n.x > ? AND n.x <= ? AND n.y >= ? AND n.y <= ?')", ["C12", "C11"]),
    ("project_no_clamp", E, "    t = max(delta, min(1-delta, ((p[0]-s1[0])*(s2[0]-s1[0]) + (p[1]-s1[1])*(s2[1]-s1[1])) / l2))", "    t = max(delta, min(1.25-delta, ((p[0]-s1[0])*(s2[0]-s1[0]) + (p[1]-s1[1])*(s2[1]-s1[1])) / l2))", ["C13"]),
    ("segseg_wrong_end", E, "        if df > dt:\n            changed_t = False", "        if df < dt:\n            changed_t = False", ["C13"]),
    ("euclid_box_half", E, "    lat_t, lon_r = lat + dist, lon + dist", "    lat_t, lon_r = lat + dist, lon + dist / 2", ["C13", "C11"]),
    ("latlon_copysign", L, "    sgn = copysign(1, cos(b12 - b13))", "    sgn = 1", ["C14"]),
    ("latlon_no_upper_clamp", L, "    elif ti > 1.0:\n        ti = 1.0\n        lati, loni = lat2, lon2\n        dist_ct = distance_haversine_radians(lat3, lon3, lati, loni)", "    elif ti > 1.5:\n        ti = 1.0\n        lati, loni = lat2, lon2\n        dist_ct = distance_haversine_radians(lat3, lon3, lati, loni)", ["C14"]),
    ("latlon_bearing_lon_sign", L, "    dlon = lon2 - lon1\n    y = sin(dlon) * cos(lat2)", "    dlon = lon1 - lon2\n    y = sin(dlon) * cos(lat2)", ["C14", "C15", "C20"]),
    ("earth_radius_x1_1", L, "earth_radius = 6371000", "earth_radius = 7008100", ["C14", "C15"]),
    ("euclid_distance_axis_bug", E, "    result = math.sqrt((p1[0] - p2[0]) ** 2 + (p1[1] - p2[1]) ** 2)", "    result = math.sqrt((p1[0] - p2[0]) ** 2 + (p1[1] - p2[1]) ** 2) if p1[0] >= p2[0] else math.sqrt((p1[0] - p2[0]) ** 2 + (p1[1] - p2[1]) ** 2) * 1.01", ["C16", "C02", "C13"]),
    ("approx_equal_loose", "leuvenmapmatching/util/__init__.py", "def approx_equal(a, b, rtol=0.0, atol=1e-08):", "def approx_equal(a, b, rtol=0.0, atol=1e-03):", ["C16", "C01"]),
    ("nodes_closeto_no_truncation", I, "        lat, lon = loc[:2]\n        lat_b, lon_l, lat_t, lon_r = self.box_around_point((lat, lon), max_dist)\n        bb = (lat_b, lon_l,  # y_min, x_min\n              lat_t, lon_r)  # y_max, x_max\n        if self.rtree is not None and max_dist is not None:", "        lat, lon = loc\n        lat_b, lon_l, lat_t, lon_r = self.box_around_point((lat, lon), max_dist)\n        bb = (lat_b, lon_l,  # y_min, x_min\n              lat_t, lon_r)  # y_max, x_max\n        if self.rtree is not None and max_dist is not None:", ["C17"]),
    ("add_nodes_no_commit", Q, "        q = \"INSERT INTO nodes VALUES(?, ?, ?)\"\n        c.executemany(q, get_node_vals())\n        self.db.commit()", "        q = \"INSERT INTO nodes VALUES(?, ?, ?)\"\n        c.executemany(q, get_node_vals())", ["C18"]),
    ("reindex_edges_no_delete", Q, "        c.execute('DELETE FROM edges_index')\n        q = ('INSERT INTO edges_index '", "        q = ('INSERT OR IGNORE INTO edges_index '", ["C18"]),
    ("pickle_without_use_latlon", I, "                   use_latlon=data[\"use_latlon\"], use_rtree=data[\"use_rtree\"],", "                   use_latlon=data.get(\"uselatlon\", True), use_rtree=data[\"use_rtree\"],", ["C18"]),
    ("pickle_drops_linked_edges", I, "            \"linked_edges\": self.linked_edges\n", "            \"linked_edges\": None if not self.use_latlon else self.linked_edges\n", ["C18"]),
    ("debug_prune_keeps_stopped", B, "        cur_lattice = [m for m in self.values(obs_ne) if not m.stop]\n        if __debug__:", "        cur_lattice = [m for m in self.values(obs_ne) if not m.stop or logger.isEnabledFor(logging.DEBUG)]\n        if __debug__:", ["C19", "C09"]),
    ("interp_floor", E, "            dt = int(math.ceil(dist / dd))", "            dt = int(math.floor(dist / dd)) or 1", ["C20"]),
    ("interp_latlon_step_from_p2", L, "            brng = bearing_radians(lat1, lon1, lat2, lon2)\n            for _ in range(dt):", "            brng = bearing_radians(lat2, lon2, lat1, lon1) + math.pi\n            for _ in range(dt):", ["C20"]),
]


def run_one(m):
    name, rel, old, new, checks = m
    cmd = [sys.executable, os.path.join(VERIF, "tools", "mutate.py"), "--tests", name, rel, old, new, "--"] + checks
    r = subprocess.run(cmd, capture_output=True, text=True)
    return name, rel, checks, r.stdout + r.stderr


def main():
    args = sys.argv[1:]
    jobs = 3
    if args[:1] == ["-j"]:
        jobs = int(args[1])
        args = args[2:]
    todo = [m for m in MUTANTS if not args or any(a in m[0] for a in args)]
    rows = []
    with concurrent.futures.ThreadPoolExecutor(jobs) as ex:
        for name, rel, checks, out in ex.map(run_one, todo):
            tests = re.search(r"baseline tests: (\d+)/(\d+)", out)
            t = f"{tests.group(1)}/{tests.group(2)}" if tests else "?"
            res = []
            for c in checks:
                mm = re.search(rf"\] {c}: (\S+)", out)
                res.append(f"{c}: {mm.group(1) if mm else '?'}")
            clause = re.search(r"violated clause: ([^\n]{0,110})", out)
            rows.append((name, rel.split('/')[-1], t, "; ".join(res), clause.group(1) if clause else ""))
            print(rows[-1], flush=True)
            if "PATTERN-NOT-FOUND" in out or "HARNESS" in out:
                print(out)
    import json
    state_fn = os.path.join(VERIF, "tools", "sensitivity_results.json")
    state = json.load(open(state_fn)) if os.path.exists(state_fn) else {}
    for r in rows:
        state[r[0]] = list(r)
    json.dump(state, open(state_fn, "w"), indent=1, sort_keys=True)
    order = [m[0] for m in MUTANTS]
    with open(os.path.join(VERIF, "SENSITIVITY.md"), "w") as f:
        f.write("# Sensitivity of the checks to hand-made semantic mutations\n\n"
                "Produced by `tools/sensitivity.py` (quick tier, VERIF_SEED=1, scratch copy of /repo under /var/tmp, removed afterwards;\n"
                "results are kept per mutation in `tools/sensitivity_results.json`, so single mutations can be re-run).\n"
                "`tests` = how many of the 43 stable-pass baseline tests still pass with the mutation (43/43 = invisible to the suite;\n"
                "42/43 is usually the spurious `test_parallelroads` flake when several pytest runs overlap).\n\n"
                "| mutation | file | tests | checks | first violated clause |\n|---|---|---|---|---|\n")
        for name in order:
            if name in state:
                f.write("| " + " | ".join(str(x).replace("|", "\\|") for x in state[name]) + " |\n")
        f.write("\nNot detected: `reindex_edges_no_delete` is an equivalent mutant (without an API to move a node, re-inserting the same\n"
                "index rows with INSERT OR IGNORE gives the same table as DELETE + INSERT).\n")
    missed = [r for r in rows if "quiet" in r[3] and "DETECTED" not in r[3]]
    print(f"{len(rows)} mutations, {len(missed)} not detected by any listed check: {[r[0] for r in missed]}")


if __name__ == "__main__":
    main()
