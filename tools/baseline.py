#!/usr/bin/env python3
"""Runs the pinned baseline command of /root/.vp/BASELINE.json on a tree (default /repo) and compares with the
43 stable passes.  Exit 0 iff every stable-pass test passes."""
import json
import os
import subprocess
import sys
import tempfile
import xml.etree.ElementTree as ET

tree = sys.argv[1] if len(sys.argv) > 1 else "/repo"
base = json.load(open("/root/.vp/BASELINE.json"))
with tempfile.TemporaryDirectory() as d:
    junit = os.path.join(d, "j.xml")
    subprocess.run(["/venv/bin/python", "-m", "pytest", "-ra", "-q", "-p", "no:cacheprovider", "--timeout=900",
                    "--continue-on-collection-errors", f"--junitxml={junit}"], cwd=tree,
                   stdout=subprocess.DEVNULL, stderr=subprocess.DEVNULL, env=dict(os.environ, PYTHONPATH=tree))
    ok = set()
    for tc in ET.parse(junit).getroot().iter("testcase"):
        if not any(ch.tag in ("failure", "error", "skipped") for ch in tc):
            ok.add(f"{tc.get('classname')}::{tc.get('name')}")
missing = [t for t in base["stable_pass"] if t not in ok]
print(f"baseline on {tree}: {len(base['stable_pass']) - len(missing)}/{len(base['stable_pass'])} stable-pass tests pass; "
      f"{len(ok)} passed in total")
for t in missing:
    print("  BROKEN", t)
sys.exit(1 if missing else 0)
