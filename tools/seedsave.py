#!/usr/bin/env python3
"""tools/seedsave.py <src dir> <name> <property> '<needs>' '<detected by: ...>'  -- files a confirmed seeded change under /verif/seeded/<name>/"""
import json, os, shutil, sys
src, name, prop, needs, result = sys.argv[1:6]
dst = os.path.join(os.path.dirname(os.path.dirname(os.path.abspath(__file__))), "seeded", name)
os.makedirs(dst, exist_ok=True)
for f in ("patch.diff", "demo.py", "notes.md"):
    if os.path.exists(os.path.join(src, f)):
        shutil.copy(os.path.join(src, f), os.path.join(dst, f))
meta = {"breaks_property": prop, "needs_to_manifest": needs, "origin": "independent sub-agent given only the property text and a scratch worktree",
        "confirmed": {"demo": "exit 0 on /repo HEAD, exit 1 with patch.diff applied (tools/mutate.py --demo)",
                      "baseline_tests": "43/43 stable-pass tests pass with the patch (tools/mutate.py --tests)",
                      "command": f"python3 tools/mutate.py --patch seeded/{name}/patch.diff --demo seeded/{name}/demo.py --tests -- {prop}"},
        "result": result}
json.dump(meta, open(os.path.join(dst, "meta.json"), "w"), indent=1)
print("saved", dst)
