#!/bin/bash
# tools/runall.sh [tier] [seed]  -- runs every registered check once, prints one status line each
tier=${1:-quick}; seed=${2:-1}
cd "$(dirname "$0")/.."
for i in $(seq -w 1 20); do
  id=C$i
  start=$(date +%s)
  out=$(VERIF_SEED=$seed ./check $id --tier $tier 2>&1); rc=$?
  echo "$id rc=$rc $(( $(date +%s) - start ))s  $(echo "$out" | grep -E "^$id " | cut -c1-90)  $(echo "$out" | grep -c KNOWN-FINDING) known  $(echo "$out" | grep -E 'VIOLATION|HARNESS' | head -2 | tr '\n' ' ' | cut -c1-200)"
done
