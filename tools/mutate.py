#!/usr/bin/env python3
"""Sensitivity (mutation) runs, DESIGN.md §1.8.

  tools/mutate.py <name> <repo-relative file> <old> <new> -- C01 [C02 ...]     one hand-made mutation
  tools/mutate.py --patch <file.diff> -- C01 ...                              a seeded change (git apply)

Copies /repo's working tree to /var/tmp/lmm_mut_<pid> (never touches /repo), applies the mutation there,
optionally runs the 43 baseline tests on the copy (--tests), runs the named checks' quick tier against the
copy via VERIF_REPO with evidence/replays redirected to a scratch dir, prints one line per check and
removes the copy."""
import argparse
import json
import os
import shutil
import subprocess
import sys
import tempfile

VERIF = os.path.dirname(os.path.dirname(os.path.abspath(__file__)))


def _private_tmp(dst):
    d = os.path.join(dst, "tmp")
    os.makedirs(d, exist_ok=True)
    return d


def main():
    ap = argparse.ArgumentParser()
    ap.add_argument("--patch")
    ap.add_argument("--tests", action="store_true")
    ap.add_argument("--tier", default="quick")
    ap.add_argument("--seed", default="1")
    ap.add_argument("--examples")
    ap.add_argument("--keep", action="store_true")
    ap.add_argument("--demo", help="demonstration script: must exit 0 on /repo and non-zero on the changed tree")
    ap.add_argument("rest", nargs="*")
    a = ap.parse_args()
    rest = a.rest
    if "--" in rest:
        i = rest.index("--")
        spec, checks = rest[:i], rest[i + 1:]
    else:
        spec, checks = ([], rest) if a.patch else (rest[:4], rest[4:])
    dst = tempfile.mkdtemp(prefix="lmm_mut_", dir="/var/tmp")
    try:
        work = os.path.join(dst, "repo")
        shutil.copytree("/repo", work, ignore=shutil.ignore_patterns(".git", "__pycache__", "build", "*.egg-info", "docs"))
        if a.patch:
            name = os.path.basename(os.path.dirname(os.path.abspath(a.patch))) or a.patch
            r = subprocess.run(["git", "apply", "--unsafe-paths", f"--directory={work}", os.path.abspath(a.patch)],
                               cwd="/", capture_output=True, text=True)
            if r.returncode != 0:
                r = subprocess.run(["patch", "-p1", "-s", "-i", os.path.abspath(a.patch)], cwd=work, capture_output=True, text=True)
                if r.returncode != 0:
                    print("PATCH-FAILED", r.stdout, r.stderr)
                    return 2
        else:
            name, rel, old, new = spec
            fn = os.path.join(work, rel)
            s = open(fn).read()
            if s.count(old) < 1:
                print(f"PATTERN-NOT-FOUND {name}: {old!r}")
                return 2
            open(fn, "w").write(s.replace(old, new, 1))
        if a.demo:
            r0 = subprocess.run(["/venv/bin/python", os.path.abspath(a.demo)], cwd=dst, capture_output=True, text=True,
                                env=dict(os.environ, PYTHONPATH="/repo", PYTHONWARNINGS="ignore"))
            r1 = subprocess.run(["/venv/bin/python", os.path.abspath(a.demo)], cwd=dst, capture_output=True, text=True,
                                env=dict(os.environ, PYTHONPATH=work, PYTHONWARNINGS="ignore"))
            print(f"[{name}] demo: unchanged tree rc={r0.returncode} ({(r0.stdout.strip().splitlines() or ['-'])[-1][:80]}), "
                  f"changed tree rc={r1.returncode} ({(r1.stdout.strip().splitlines() or ['-'])[-1][:80]})"
                  + ("" if (r0.returncode == 0 and r1.returncode != 0) else "   DEMO-NOT-CONFIRMED"))
        if a.tests:
            base = json.load(open("/root/.vp/BASELINE.json"))
            junit = os.path.join(dst, "junit.xml")
            subprocess.run(["/venv/bin/python", "-m", "pytest", "-q", "-p", "no:cacheprovider", "--timeout=900",
                            "--continue-on-collection-errors", f"--junitxml={junit}"], cwd=work,
                           stdout=subprocess.DEVNULL, stderr=subprocess.DEVNULL,
                           env=dict(os.environ, PYTHONPATH=work, TMPDIR=_private_tmp(dst)))  # tests/test_parallelroads.py writes
            # <tmp>/map.sqlite: a private TMPDIR keeps concurrent runs apart
            import xml.etree.ElementTree as ET
            ok = set()
            for tc in ET.parse(junit).getroot().iter("testcase"):
                if not any(ch.tag in ("failure", "error", "skipped") for ch in tc):
                    ok.add(f"{tc.get('classname')}::{tc.get('name')}")
            missing = [t for t in base["stable_pass"] if t not in ok]
            print(f"[{name}] baseline tests: {len(base['stable_pass']) - len(missing)}/{len(base['stable_pass'])} pass"
                  + (f"  BROKEN: {missing}" if missing else ""))
        for pid in checks:
            env = dict(os.environ, VERIF_REPO=work, VERIF_SEED=a.seed, VERIF_OUT=os.path.join(dst, "out"))
            cmd = [os.path.join(VERIF, "check"), pid, "--tier", a.tier]
            if a.examples:
                cmd += ["--examples", a.examples]
            r = subprocess.run(cmd, env=env, capture_output=True, text=True)
            viol = [ln for ln in r.stdout.splitlines() if ln.startswith("VIOLATION") or "violated clause" in ln]
            wall = [ln for ln in r.stdout.splitlines() if ln.startswith(pid)]
            status = {0: "quiet", 1: "DETECTED", 2: "HARNESS-ERROR"}.get(r.returncode, f"rc={r.returncode}")
            print(f"[{name}] {pid}: {status}  {wall[0] if wall else ''}")
            for ln in viol[:3]:
                print("     " + ln[:300])
            if r.returncode == 2:
                print(r.stderr[-1500:])
        return 0
    finally:
        if not a.keep:
            shutil.rmtree(dst, ignore_errors=True)
        else:
            print("kept", dst)


if __name__ == "__main__":
    sys.exit(main())
