#!/usr/bin/env python3
"""Automatic mutation survey (complements the hand-made table of tools/sensitivity.py and the seeded changes).

  tools/automutate.py [-j N] [--n N] [--seed S] [--files f1,f2] [--resume]

Enumerates small AST mutations (comparison / arithmetic / boolean operator swaps, negated conditions, off-by-one
constants, dropped `continue`/`break`, swapped call arguments are NOT attempted) in the package sources that the
properties are anchored in, draws a stratified pseudo-random sample (pure function of --seed), and for each mutant

  1. writes the mutated module into a scratch copy of /repo under /var/tmp (never touches /repo),
  2. runs the 43 baseline tests on the copy: a mutant they kill is "killed-by-tests" and not interesting,
  3. otherwise runs the checks mapped to the file (quick tier, VERIF_SEED=1), stopping at the first that reports a
     violation ("DETECTED by Cxx"), and if those are quiet every other check,
  4. records the outcome in tools/automutate_results.json (append-only by mutant id) and prints one line.

Survivors ("quiet") are candidates for a blind spot and must be triaged by hand: equivalent mutant, code no property
reaches (plotting, printing, projections via pyproj, ...), or a real gap that needs a stronger generator/oracle.
AUTOMUTATE.md is regenerated from the results file."""
import argparse
import ast
import concurrent.futures
import copy
import json
import os
import random
import shutil
import subprocess
import sys
import tempfile
import xml.etree.ElementTree as ET

VERIF = os.path.dirname(os.path.dirname(os.path.abspath(__file__)))
RESULTS = os.path.join(VERIF, "tools", "automutate_results.json")
ALL = ["C%02d" % i for i in range(1, 21)]

FILES = {
    "leuvenmapmatching/util/dist_euclidean.py": ["C13", "C20", "C11", "C05", "C16"],
    "leuvenmapmatching/util/dist_latlon.py": ["C14", "C20", "C11", "C15"],
    "leuvenmapmatching/util/segment.py": ["C05", "C02", "C17"],
    "leuvenmapmatching/util/__init__.py": ["C07", "C16", "C01"],
    "leuvenmapmatching/map/inmem.py": ["C11", "C12", "C18", "C04", "C10"],
    "leuvenmapmatching/map/sqlite.py": ["C11", "C12", "C18", "C17"],
    "leuvenmapmatching/map/base.py": ["C04", "C12", "C15", "C18"],
    "leuvenmapmatching/matcher/base.py": ["C01", "C03", "C02", "C07", "C08", "C09", "C06", "C04", "C05", "C19", "C10", "C17", "C16"],
    "leuvenmapmatching/matcher/simple.py": ["C01", "C02", "C17"],
    "leuvenmapmatching/matcher/distance.py": ["C01", "C02", "C06", "C15", "C16", "C17"],
    "leuvenmapmatching/matcher/newsonkrumm.py": ["C02", "C03", "C17", "C12"],
}
WEIGHT = {"leuvenmapmatching/matcher/base.py": 5, "leuvenmapmatching/map/inmem.py": 2, "leuvenmapmatching/map/sqlite.py": 2,
          "leuvenmapmatching/matcher/distance.py": 2, "leuvenmapmatching/util/dist_euclidean.py": 2,
          "leuvenmapmatching/util/dist_latlon.py": 2}
# functions that no property reaches (printing, plotting, statistics, projections that need pyproj, debugging helpers)
SKIP_FUNCS = {"__str__", "__repr__", "repr_header", "repr_static", "print_lattice", "print_lattice_stats", "lattice_dot",
              "inspect_best_path", "copy_lastinterface", "print_stats", "to_xy", "latlon2yx", "yx2latlon", "latlon2xy",
              "xy2latlon", "best_last_matches", "get_matching", "find_duplicates", "connect_parallelroads_old",
              "print_lattice_best", "dump", "from_pickle_old", "fill_index", "lattice_stats", "node_counts",
              "path_bb", "print"}

CMP = {ast.Lt: ast.LtE, ast.LtE: ast.Lt, ast.Gt: ast.GtE, ast.GtE: ast.Gt, ast.Eq: ast.NotEq, ast.NotEq: ast.Eq,
       ast.Is: ast.IsNot, ast.IsNot: ast.Is, ast.In: ast.NotIn, ast.NotIn: ast.In}
BIN = {ast.Add: ast.Sub, ast.Sub: ast.Add, ast.Mult: ast.Div, ast.Div: ast.Mult}


class Sites(ast.NodeVisitor):
    """Collects (kind, node) mutation sites, skipping logging arguments, docstrings and SKIP_FUNCS."""

    def __init__(self):
        self.sites = []
        self.func = []

    def visit_FunctionDef(self, node):
        if node.name in SKIP_FUNCS:
            return
        self.func.append(node.name)
        self.generic_visit(node)
        self.func.pop()

    def visit_Call(self, node):
        f = node.func
        if isinstance(f, ast.Attribute) and isinstance(f.value, ast.Name) and f.value.id == "logger" and f.attr != "isEnabledFor":
            return
        self.generic_visit(node)

    def visit_Raise(self, node):
        return

    def visit_Assert(self, node):
        return

    def add(self, kind, node):
        self.sites.append((kind, node, ".".join(self.func) or "<module>"))

    def visit_Compare(self, node):
        if len(node.ops) == 1 and type(node.ops[0]) in CMP:
            self.add("cmp", node)
        self.generic_visit(node)

    def visit_BinOp(self, node):
        def is_str(n):
            return isinstance(n, (ast.JoinedStr,)) or (isinstance(n, ast.Constant) and isinstance(n.value, str))
        if type(node.op) in BIN and not is_str(node.left) and not is_str(node.right):
            self.add("bin", node)
        self.generic_visit(node)

    def visit_BoolOp(self, node):
        self.add("bool", node)
        self.generic_visit(node)

    def visit_UnaryOp(self, node):
        if isinstance(node.op, ast.Not):
            self.add("not", node)
        elif isinstance(node.op, ast.USub) and not isinstance(node.operand, ast.Constant):
            self.add("neg", node)
        self.generic_visit(node)

    def visit_If(self, node):
        self.add("ifneg", node)
        self.generic_visit(node)

    def visit_Continue(self, node):
        self.add("continue", node)

    def visit_Break(self, node):
        self.add("break", node)

    def visit_Constant(self, node):
        if isinstance(node.value, bool):
            self.add("bool-const", node)
        elif isinstance(node.value, (int, float)) and not isinstance(node.value, bool):
            self.add("num", node)


def mutate(tree, index):
    """Returns (mutated deep copy, description) for site number `index`."""
    tree = copy.deepcopy(tree)
    s = Sites()
    s.visit(tree)
    kind, node, func = s.sites[index]
    line = getattr(node, "lineno", 0)
    before = ast.unparse(node)[:70]
    if kind == "cmp":
        node.ops = [CMP[type(node.ops[0])]()]
    elif kind == "bin":
        node.op = BIN[type(node.op)]()
    elif kind == "bool":
        node.op = ast.Or() if isinstance(node.op, ast.And) else ast.And()
    elif kind == "not":
        # not x -> bool(x)
        new = ast.Call(func=ast.Name(id="bool", ctx=ast.Load()), args=[node.operand], keywords=[])
        replace(tree, node, new)
        node = new
    elif kind == "neg":
        replace(tree, node, node.operand)
        node = node.operand
    elif kind == "ifneg":
        node.test = ast.UnaryOp(op=ast.Not(), operand=node.test)
        before = "if " + before.split("\n")[0]
    elif kind in ("continue", "break"):
        new = ast.Pass()
        replace(tree, node, new)
        node = new
    elif kind == "bool-const":
        node.value = not node.value
    elif kind == "num":
        node.value = 1 if node.value == 0 else (0 if node.value == 1 else (node.value + 1 if isinstance(node.value, int) else node.value * 2))
    ast.fix_missing_locations(tree)
    after = ast.unparse(node)[:70].split("\n")[0] if kind != "ifneg" else "if " + ast.unparse(node.test)[:70]
    return tree, {"kind": kind, "func": func, "line": line, "before": before.split("\n")[0], "after": after}


def replace(tree, old, new):
    for parent in ast.walk(tree):
        for field, value in ast.iter_fields(parent):
            if value is old:
                setattr(parent, field, new)
                return
            if isinstance(value, list):
                for i, v in enumerate(value):
                    if v is old:
                        value[i] = new
                        return
    raise RuntimeError("node not found")


def baseline_ok(work, dst):
    base = json.load(open("/root/.vp/BASELINE.json"))
    junit = os.path.join(dst, "junit.xml")
    tmp = os.path.join(dst, "tmp")
    os.makedirs(tmp, exist_ok=True)
    # only the 43 stable-pass tests (the other tests need the network), stopping at the first failure
    ids = [t.split("::")[0].replace(".", "/") + ".py::" + t.split("::", 1)[1] for t in base["stable_pass"]]
    subprocess.run(["/venv/bin/python", "-m", "pytest", "-q", "-p", "no:cacheprovider", "--timeout=300", "-x",
                    f"--junitxml={junit}"] + ids, cwd=work,
                   stdout=subprocess.DEVNULL, stderr=subprocess.DEVNULL, env=dict(os.environ, PYTHONPATH=work, TMPDIR=tmp))
    ok = set()
    try:
        for tc in ET.parse(junit).getroot().iter("testcase"):
            if not any(ch.tag in ("failure", "error", "skipped") for ch in tc):
                ok.add(f"{tc.get('classname')}::{tc.get('name')}")
    except Exception:
        return False, ["junit missing"]
    missing = [t for t in base["stable_pass"] if t not in ok]
    # (tests/test_parallelroads.py writes <tmp>/map.sqlite: the private TMPDIR keeps concurrent runs apart)
    return not missing, missing


def run_one(job):
    mid, rel, index = job
    src = open(os.path.join("/repo", rel)).read()
    tree = ast.parse(src)
    mtree, desc = mutate(tree, index)
    desc.update({"id": mid, "file": rel, "site": index})
    dst = tempfile.mkdtemp(prefix="lmm_am_", dir="/var/tmp")
    try:
        work = os.path.join(dst, "repo")
        shutil.copytree("/repo", work, ignore=shutil.ignore_patterns(".git", "__pycache__", "build", "*.egg-info", "docs"))
        code = ast.unparse(mtree)
        try:
            compile(code, rel, "exec")
        except SyntaxError:
            desc["outcome"] = "does-not-compile"
            return desc
        open(os.path.join(work, rel), "w").write(code + "\n")
        r = subprocess.run(["/venv/bin/python", "-c", "import leuvenmapmatching.matcher.distance, leuvenmapmatching.map.inmem, "
                            "leuvenmapmatching.map.sqlite, leuvenmapmatching.matcher.newsonkrumm, leuvenmapmatching.matcher.simple"],
                           cwd=work, env=dict(os.environ, PYTHONPATH=work), capture_output=True)
        if r.returncode != 0:
            desc["outcome"] = "does-not-import"
            return desc
        ok, missing = baseline_ok(work, dst)
        if not ok:
            desc["outcome"] = "killed-by-tests"
            desc["tests"] = missing[:3]
            return desc
        order = FILES[rel] + [c for c in ALL if c not in FILES[rel]]
        quiet = []
        for pid in order:
            env = dict(os.environ, VERIF_REPO=work, VERIF_SEED="1", VERIF_OUT=os.path.join(dst, "out"))
            r = subprocess.run([os.path.join(VERIF, "check"), pid, "--tier", "quick"], env=env, capture_output=True, text=True)
            if r.returncode == 1:
                cl = [ln for ln in r.stdout.splitlines() if "violated clause" in ln]
                desc["outcome"] = "DETECTED"
                desc["by"] = pid
                desc["mapped"] = pid in FILES[rel]
                desc["clause"] = cl[0].strip()[:160] if cl else ""
                desc["quiet_before"] = quiet
                return desc
            if r.returncode != 0:
                desc["outcome"] = "HARNESS-ERROR"
                desc["by"] = pid
                desc["stderr"] = r.stderr[-600:]
                return desc
            quiet.append(pid)
        desc["outcome"] = "quiet"
        return desc
    finally:
        shutil.rmtree(dst, ignore_errors=True)


def write_md(results):
    rows = sorted(results.values(), key=lambda d: (d["file"], d["line"], d["id"]))
    cnt = {}
    for d in rows:
        cnt[d["outcome"]] = cnt.get(d["outcome"], 0) + 1
    with open(os.path.join(VERIF, "AUTOMUTATE.md"), "w") as f:
        f.write("# Automatic mutation survey (tools/automutate.py)\n\n"
                "Random AST mutants of the package sources (operator swaps, negated conditions, off-by-one constants, dropped\n"
                "`continue`/`break`); each mutant that survives the 43 baseline tests is run against the quick tier of the checks\n"
                "(VERIF_SEED=1). `quiet` mutants are triaged by hand in the last column (see tools/automutate_triage.json).\n\n")
        f.write("outcomes: " + ", ".join(f"{k}: {v}" for k, v in sorted(cnt.items())) + "\n\n")
        tri = {}
        tp = os.path.join(VERIF, "tools", "automutate_triage.json")
        if os.path.exists(tp):
            tri = json.load(open(tp))
        f.write("| id | file:line (function) | mutation | outcome | by / triage |\n|---|---|---|---|---|\n")
        for d in rows:
            if d["outcome"] in ("killed-by-tests", "does-not-compile", "does-not-import"):
                continue
            what = f"`{d['before']}` -> `{d['after']}`".replace("|", "\\|")
            by = d.get("by", "") + (" " + d.get("clause", "").replace("violated clause:", "").strip()[:80] if d.get("clause") else "")
            if d["outcome"] == "quiet":
                by = tri.get(d["id"], "NOT YET TRIAGED")
            f.write(f"| {d['id']} | {d['file'].replace('leuvenmapmatching/', '')}:{d['line']} ({d['func']}) | {what} | {d['outcome']} | {by.replace('|', ' ')} |\n")


def main():
    ap = argparse.ArgumentParser()
    ap.add_argument("-j", type=int, default=2)
    ap.add_argument("--n", type=int, default=60)
    ap.add_argument("--seed", type=int, default=1)
    ap.add_argument("--files", default="")
    ap.add_argument("--md-only", action="store_true")
    a = ap.parse_args()
    results = json.load(open(RESULTS)) if os.path.exists(RESULTS) else {}
    if a.md_only:
        write_md(results)
        return
    files = [f for f in FILES if not a.files or any(x in f for x in a.files.split(","))]
    pool = []
    for rel in files:
        s = Sites()
        s.visit(ast.parse(open(os.path.join("/repo", rel)).read()))
        pool += [(rel, i) for i in range(len(s.sites))] * 1
    rng = random.Random(a.seed)
    weights = [WEIGHT.get(rel, 1) / sum(1 for r, _ in pool if r == rel) for rel, _ in pool]
    chosen = set()
    while len(chosen) < min(a.n, len(pool)):
        chosen.add(rng.choices(range(len(pool)), weights)[0])
    jobs = []
    for k in sorted(chosen):
        rel, i = pool[k]
        mid = rel[len("leuvenmapmatching/"):-3].replace("/", ".") + f"#{i}"
        if mid not in results:
            jobs.append((mid, rel, i))
    print(f"{len(pool)} sites in {len(files)} files; {len(chosen)} sampled, {len(jobs)} to run", flush=True)
    with concurrent.futures.ThreadPoolExecutor(a.j) as ex:
        for d in ex.map(run_one, jobs):
            results[d["id"]] = d
            json.dump(results, open(RESULTS, "w"), indent=1, sort_keys=True)
            print(f"{d['id']:28s} {d['func'][:34]:34s} L{d['line']:<5d} {d['kind']:10s} {d['outcome']:16s} {d.get('by', '')} {d['before']} -> {d['after']}", flush=True)
    write_md(results)


if __name__ == "__main__":
    main()
