#!/usr/bin/env python3
"""Re-verifies every seeded change under /verif/seeded against the CURRENT /repo tree:
patch applies, demo passes on /repo and fails with the patch, 43 baseline tests pass with the patch (--tests),
and the property's own check (quick tier) detects it.   tools/seedverify.py [-j N] [--tests] [name-filter ...]
Writes seeded/STATUS.md."""
import concurrent.futures
import json
import os
import re
import subprocess
import sys

VERIF = os.path.dirname(os.path.dirname(os.path.abspath(__file__)))
SEEDED = os.path.join(VERIF, "seeded")


def one(name, tests):
    d = os.path.join(SEEDED, name)
    meta = json.load(open(os.path.join(d, "meta.json")))
    prop = meta["breaks_property"]
    cmd = [sys.executable, os.path.join(VERIF, "tools", "mutate.py"), "--patch", os.path.join(d, "patch.diff"),
           "--demo", os.path.join(d, "demo.py")] + (["--tests"] if tests else []) + ["--", prop]
    r = subprocess.run(cmd, capture_output=True, text=True)
    out = r.stdout + r.stderr
    demo = "confirmed" if ("demo:" in out and "DEMO-NOT-CONFIRMED" not in out) else "NOT CONFIRMED"
    t = re.search(r"baseline tests: (\d+/\d+)", out)
    det = re.search(rf"\] {prop}: (\S+)", out)
    clause = re.search(r"violated clause: ([^\n]{0,90})", out)
    if "PATCH-FAILED" in out:
        return name, prop, "PATCH DOES NOT APPLY", "-", "-", ""
    return name, prop, demo, t.group(1) if t else "-", det.group(1) if det else "?", clause.group(1) if clause else ""


def main():
    args = sys.argv[1:]
    jobs, tests = 3, False
    if args[:1] == ["-j"]:
        jobs, args = int(args[1]), args[2:]
    if "--tests" in args:
        tests = True
        args.remove("--tests")
    names = sorted(n for n in os.listdir(SEEDED) if os.path.isdir(os.path.join(SEEDED, n)) and (not args or any(a in n for a in args)))
    rows = []
    with concurrent.futures.ThreadPoolExecutor(jobs) as ex:
        for row in ex.map(lambda n: one(n, tests), names):
            rows.append(row)
            print(row, flush=True)
    head = subprocess.check_output(["git", "-C", "/repo", "log", "--format=%h", "-1"], text=True).strip()
    if not args:
        with open(os.path.join(SEEDED, "STATUS.md"), "w") as f:
            f.write(f"# Seeded changes re-verified against /repo at {head} (tools/seedverify.py, quick tier, VERIF_SEED=1)\n\n"
                    "| seeded change | property | demo (pass on /repo, fail with patch) | baseline tests with patch | own check | first violated clause |\n"
                    "|---|---|---|---|---|---|\n")
            for r in rows:
                f.write("| " + " | ".join(str(x).replace("|", "\\|") for x in r) + " |\n")
    bad = [r[0] for r in rows if r[2] != "confirmed" or r[4] != "DETECTED"]
    print(f"{len(rows)} seeded changes, {len(bad)} need attention: {bad}")


if __name__ == "__main__":
    main()
