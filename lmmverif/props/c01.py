"""C01 — Emitting-only matching returns a maximum-probability walk.

Oracle: independent reference model (hmmref): exhaustive enumeration of all admissible walks (traces <= 6 points)
cross-checked with an own Viterbi; the returned walk must itself be admissible and optimal (ties accepted)."""
import shutil
import tempfile

from hypothesis import strategies as st

from .. import base, gen, hmmref
from ..base import Violation, HarnessError

RULE = ("cases: (planar graph, trace, configuration) with non-emitting states off, no width, avoid_goingback=False; "
        "all graph families / label kinds / trace kinds / three matcher families / all cut-off combinations; one case in 150 is a very "
        "long trace (700-900 observations, total log-probability far below -745, reference Viterbi only); "
        "non-trivial = at least 2 observations matched and at least 2 admissible walks for the matched prefix; "
        "distinct = canonical case JSON")
ASSUMPTIONS = ["planar metric (lat/lon is tied to it by C15 and C14)", "graphs <= 12 nodes, traces <= 12 points (except the very long traces on a 3-node road)",
               "labels: ints or short strings without '-'/'_' (the package joins labels with these characters), homogeneous per map",
               "decisions within 1e-9 of a cut-off are not decided (counted as 'ambiguous')",
               "cases hit by open finding F1 (InMemMap.edges_closeto drops start candidates) are excluded on the in-memory map, "
               "counted, and covered through the SQLite map instead"]
TOLERANCES = {"logprob": "1e-9 relative", "threshold_band": hmmref.BAND}
BUDGET = {"quick": {"shards": 8, "examples": 1200}, "thorough": {"shards": 16, "examples": 12000}}

ENUM_MAX_T = 6


def f1_affected(model, obs0):
    """Some edge within the start radius has its start node outside the box the in-memory query scans."""
    r = model.max_dist_init
    if r == float("inf") or not model.only_edges:
        return False
    for (a, b) in model.edges():
        d, _, _ = model.place((a, b), obs0)
        if d < r:
            la = model.loc[a]
            if not (obs0[0] - r <= la[0] <= obs0[0] + r and obs0[1] - r <= la[1] <= obs0[1] + r):
                return True
    return False


def reference(case):
    model = hmmref.Model(case["graph"], case["config"], linked=case.get("linked"))
    obs = [tuple(p[:2]) for p in case["trace"]]
    cols = model.viterbi(obs)
    k = len(cols)
    best = max(r["lp"] for r in cols[-1].values()) if cols else None
    nwalks = None
    if len(obs) <= ENUM_MAX_T:
        en = model.enumerate_walks(obs)
        if en is not None and not model.ambiguous:
            ek, ebest, nwalks = en
            if ek != k or (k and not base.close(ebest, best, 1e-12)):
                raise HarnessError(f"reference self-check failed: enumeration {(ek, ebest)} vs viterbi {(k, best)}")
    if nwalks is None:
        nwalks = max((len(c) for c in cols), default=0)
    return model, obs, k, best, nwalks


def compare(case, mapobj, model, obs, k, best, backend):
    matcher = base.mk_matcher(mapobj, case["config"])
    with base.quiet():
        states, idx = base.pkg(matcher.match, base.to_path(case["trace"]))
    if k == 0:
        if states or idx != 0:
            raise Violation("empty", f"[{backend}] no admissible start exists but match returned {states!r}, {idx}")
        return
    if not states:
        raise Violation("prefix", f"[{backend}] reference explains {k} observations, match returned an empty result")
    lb = matcher.lattice_best
    if idx + 1 != k:
        raise Violation("prefix", f"[{backend}] matched {idx + 1} observations, the longest explainable prefix has {k}")
    lp = float(lb[-1].logprob)
    if not base.close(lp, best, 1e-9):
        raise Violation("optimal", f"[{backend}] reported best log-probability {lp}, maximum over all admissible walks {best}")
    walk = [m.shortkey for m in lb]
    if len(walk) != k:
        raise Violation("prefix", f"[{backend}] best path has {len(walk)} states for {k} matched observations")
    recs, why = model.walk_admissible(walk, obs)
    if recs is None:
        raise Violation("admissible", f"[{backend}] returned walk {walk} is not admissible: {why}")
    if not base.close(recs[-1]["lp"], best, 1e-9):
        raise Violation("optimal", f"[{backend}] returned walk {walk} has model probability {recs[-1]['lp']}, maximum is {best}")


def check_case(case, ctx):
    cfg = case["config"]
    assert not cfg.get("non_emitting_states") and not cfg.get("max_lattice_width") and cfg.get("avoid_goingback") is False
    model, obs, k, best, nwalks = reference(case)
    fam = cfg["family"]
    classes = [f"family:{fam}", "labels:" + type(case["graph"][0][0]).__name__]
    if model.ambiguous:
        ctx.record(case, False, classes + ["ambiguous-threshold"])
        return
    classes.append("result:" + ("empty" if k == 0 else ("full" if k == len(obs) else "partial")))
    if case.get("xl"):
        classes.append("very-long-trace")
    for name, cnt in model.rej.items():
        if cnt:
            classes.append(f"binding:{name}")
    affected = f1_affected(model, obs[0])
    int_labels = all(type(n[0]) is int and n[0] >= 0 for n in case["graph"])
    ran = False
    if affected and ctx.known("F1", "InMemMap.edges_closeto drops edges whose start node lies outside the box"):
        classes.append("excluded:F1-on-inmem")
    else:
        compare(case, base.mk_inmem(case["graph"], linked=case.get("linked")), model, obs, k, best, "inmem")
        ran = True
    # SQLite offers no "stay on this node" move (C12 grants that difference), so only edge-based families run there
    if case.get("linked"):
        classes.append("linked-edges")
    if int_labels and model.only_edges and not case.get("linked") and (affected or case.get("also_sqlite")):
        d = tempfile.mkdtemp(prefix="lmmv_c01_", dir=base_tmp())
        try:
            sm = base.mk_sqlite(case["graph"], d)
            try:
                compare(case, sm, model, obs, k, best, "sqlite")
            finally:
                sm.db.close()
        finally:
            shutil.rmtree(d, ignore_errors=True)
        classes.append("backend:sqlite")
        ran = True
    ctx.record(case, ran and k >= 2 and nwalks >= 2, classes, {"matched": k, "best_logprob": best, "admissible_walks": nwalks})


def base_tmp():
    import os
    return "/dev/shm" if os.path.isdir("/dev/shm") and os.access("/dev/shm", os.W_OK) else None


def strategy(tier):
    sz = gen.sizes(tier)

    @st.composite
    def _s(draw):
        if draw(st.integers(0, 149)) == 0:
            # a very long trace (700-900 observations creeping along a straight road, each about 1.5 sigma off): the total
            # log-probability goes far below -745 (where exp() underflows) while the normalised probability stays above the
            # cut-off, so the whole trace is explainable
            n_obs = draw(st.sampled_from([700, 800, 900]))
            fam = draw(st.sampled_from(["simple", "distance"]))
            sigma = draw(st.sampled_from([1.0, 2.0]))
            L = 50.0 * sigma
            off = draw(st.sampled_from([1.5, 1.4, -1.5])) * sigma
            g = [[1, [0.0, 0.0], [2]], [2, [0.0, L], [1, 3]], [3, [0.0, 2 * L], [2]]]
            t = [[off, round(i * 2 * L / n_obs, 6)] for i in range(n_obs)]
            cfg = {"family": fam, "obs_noise": sigma, "max_dist": draw(st.sampled_from([None, 3.0 * sigma])), "max_dist_init": None,
                   "min_prob_norm": draw(st.sampled_from([0.2, 0.25, None])), "non_emitting_states": False,
                   "max_lattice_width": None, "avoid_goingback": False}
            return {"graph": g, "trace": t, "config": cfg, "also_sqlite": False, "xl": True}
        kinds = ("int", "int", "str") if draw(st.booleans()) else ("int", "str")
        case = draw(gen.match_case(max_nodes=sz["max_nodes"], max_len=sz["max_len"],
                                   graph_kw={"label_kinds": kinds},
                                   config_kw={"ne": False, "width": None, "first_order": True}))
        case["also_sqlite"] = draw(st.integers(0, 9)) == 0
        if case["config"]["family"] != "simple_n" and draw(st.integers(0, 7)) == 0:
            from . import common
            case["linked"] = draw(common.linked_pairs(case["graph"]))  # linked parallel edges are moves of the map too
        return case
    return _s()
