"""C09 — The lattice stays well-formed under any sequence of operations.

Model-based: operation sequences (as data, shrunk as one value) of match / extend / widen / rematch /
continue_with_distance; the structural invariant is checked over the whole lattice after every operation."""
from hypothesis import strategies as st

from .. import base, gen, audit
from . import common

RULE = ("cases: (planar graph, trace, any configuration, 2-6 operations match/extend/widen/rematch/continue_with_distance with "
        "arbitrary arguments; operations whose documented precondition fails at run time are skipped); the invariant is checked on "
        "every lattice entry after every applied operation; non-trivial = >= 2 applied operations on a lattice with >= 2 non-empty "
        "columns; classes per operation pair; distinct = case JSON")
ASSUMPTIONS = ["half of the histories run with the package logger at DEBUG (stopped candidates are then materialised in the lattice)",
               "planar metric, InMemMap; graphs <= 12 nodes, traces <= 12 points",
               "'live' is read as 'not stopped' (the delayed-based reading is false by design: pruning re-postpones an expanded parent)",
               "widen only with a width already set and not below it; continue_with_distance only after an early stop with edge states"]
TOLERANCES = {"logprob": 1e-12}
BUDGET = {"quick": {"shards": 8, "examples": 900}, "thorough": {"shards": 16, "examples": 9000}}
FUZZ = {"thorough": {"runs": 15000, "seed_inputs": 16, "max_len": 4096,
                     "include": ("leuvenmapmatching.matcher", "leuvenmapmatching.util", "leuvenmapmatching.map")}}


def check_case(case, ctx):
    import logging
    if not case.get("debug"):
        return _check(case, ctx)
    # the same history with the package logger at DEBUG: stopped candidates are then kept in the lattice for inspection,
    # which is when the 'live only if its predecessor is live' clause has something to say
    lg = logging.getLogger(base.LOGGER_NAME)
    old_level, old_handlers, old_prop = lg.level, list(lg.handlers), lg.propagate
    h = logging.NullHandler()
    try:
        lg.addHandler(h)
        lg.propagate = False
        lg.setLevel(logging.DEBUG)
        with base.quiet():
            return _check(case, ctx)
    finally:
        lg.setLevel(old_level)
        lg.handlers[:] = old_handlers
        lg.propagate = old_prop


def _check(case, ctx):
    seen = {"entries": 0}

    def after(matcher, op, states, idx, cur):
        seen["entries"] = audit.audit_lattice(matcher)

    matcher, res, cur, applied = common.apply_history(case, after=after)
    cols = sum(1 for c in matcher.lattice.values() if any(len(d) for d in c.o)) if matcher.lattice else 0
    names = [o[0] for o in applied]
    classes = ["family:" + case["config"]["family"], "applied:%d" % min(len(applied), 4), "loglevel:" + ("DEBUG" if case.get("debug") else "default")]
    if matcher.lattice and any(m.stop for _i, _ne, _k, m in base.lattice_entries(matcher)):
        classes.append("stopped-entries-in-lattice")
    for a, b in zip(names, names[1:]):
        classes.append(f"{a}->{b}")
    ctx.record(case, len(applied) >= 2 and cols >= 2, sorted(set(classes)), {"applied": applied, "entries": seen["entries"]})


def strategy(tier):
    @st.composite
    def _s(draw):
        jump = draw(st.integers(0, 3)) == 0
        if jump:
            # an outlier in the middle of the trace + a finite max_dist: the matcher stops early, which is when
            # continue_with_distance is meant to be used
            case = draw(common.mixed_case(tier, ne_share=2, min_len=4, families=("simple", "distance"),
                                          trace_kw={"kinds": ["outlier"], "sigmas": [0.05, 0.1]}))
            case["config"]["max_dist"] = draw(st.sampled_from([0.5, 1.0, 1.5]))
            case["config"]["max_dist_init"] = None
            case["config"]["min_prob_norm"] = None
        else:
            case = draw(common.mixed_case(tier, ne_share=3, min_len=2,
                                          trace_kw={"kinds": ["walk", "sparse", "outlier", "outlier", "outlier", "exact", "random"]}))
        cfg = case["config"]
        if cfg.get("max_lattice_width") is None and draw(st.booleans()):
            cfg["max_lattice_width"] = draw(st.sampled_from([1, 2, 3]))
        case["ops"] = draw(common.history_ops(len(case["trace"]), with_cwd=True, max_ops=5))
        if jump:
            n = len(case["trace"])
            case["ops"] = [["match", n], ["cwd", draw(st.integers(1, 3)), draw(st.integers(1, 3)), draw(st.sampled_from([None, 3.0, 10.0, 60.0]))]] + case["ops"][1:]
        case["unique"] = draw(st.booleans())
        case["debug"] = draw(st.booleans())
        return case
    return _s()
