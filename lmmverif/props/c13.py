"""C13 — Planar geometry primitives are exact.

Oracle: exact rational geometry (geom2d). Engines: Hypothesis (float families), exhaustive integer
grids (all 4-point configurations), atheris bridge (thorough)."""
import itertools
import math
import multiprocessing

from hypothesis import strategies as st

from .. import base, geom2d as g2
from ..base import Violation

RULE = ("cases: (kind, points) with kind in segseg/project/box; generated from float families (general, "
        "scaled 1e-3..1e6 with offsets, constructed parallel/collinear/touching/zero-length/near-parallel) "
        "plus exhaustive integer grids; every case is non-trivial unless all points coincide; distinct = "
        "distinct canonical case JSON (grid cases are distinct by construction)")
ASSUMPTIONS = ["finite coordinates, |coordinate| <= 1e7, no NaN/inf",
               "tolerance 1e-7*max(1, extent) + 1e-9*max|coordinate|: nothing is claimed below 1e-7 absolute",
               "reference: exact rational arithmetic on the float inputs (fractions.Fraction)"]
TOLERANCES = {"abs": "1e-7*max(1,extent)+1e-9*max|coord|", "t_range": 1e-12}
BUDGET = {"quick": {"shards": 8, "examples": 2500}, "thorough": {"shards": 16, "examples": 40000}}
EXHAUSTIVE = {"quick": False, "thorough": True}


def _de():
    base.load_repo()
    from leuvenmapmatching.util import dist_euclidean as de
    return de


def tol_of(pts):
    xs = [c for p in pts for c in p]
    ext = max(xs) - min(xs)
    return 1e-7 * max(1.0, ext) + 1e-9 * max(abs(x) for x in xs)


def check_segseg(a, b, c, d):
    de = _de()
    tol = tol_of([a, b, c, d])
    r = base.pkg(de.distance_segment_to_segment, tuple(a), tuple(b), tuple(c), tuple(d))
    if not (isinstance(r, tuple) and len(r) == 5):
        raise Violation("segseg.shape", f"returned {r!r}")
    dd, pf, pt, uf, ut = r
    true = g2.seg_seg(a, b, c, d)
    if not (-1e-12 <= uf <= 1 + 1e-12 and -1e-12 <= ut <= 1 + 1e-12):
        raise Violation("segseg.range", f"relative positions {uf}, {ut} outside [0,1]")
    if g2.dist(pf, g2.at(a, b, uf)) > tol:
        raise Violation("segseg.witness_f", f"pf={pf} is not f1+u_f(f2-f1)={g2.at(a, b, uf)}")
    if g2.dist(pt, g2.at(c, d, ut)) > tol:
        raise Violation("segseg.witness_t", f"pt={pt} is not t1+u_t(t2-t1)={g2.at(c, d, ut)}")
    if abs(g2.dist(pf, pt) - dd) > tol:
        raise Violation("segseg.realise", f"|pf-pt|={g2.dist(pf, pt)} but reported d={dd}")
    if abs(dd - true) > tol:
        raise Violation("segseg.distance", f"reported {dd}, true minimum distance {true}")
    return g2.classify_pair(a, b, c, d)


def check_project(s1, s2, p):
    de = _de()
    tol = tol_of([s1, s2, p])
    pt, t = base.pkg(de.project, tuple(s1), tuple(s2), tuple(p))
    true = g2.sqrt_fr(g2.pt_seg_d2_exact(g2.fr(p), g2.fr(s1), g2.fr(s2)))
    if not (-1e-12 <= t <= 1 + 1e-12):
        raise Violation("project.range", f"t={t}")
    if g2.dist(pt, g2.at(s1, s2, t)) > tol:
        raise Violation("project.witness", f"pt={pt} not at t={t}")
    if abs(g2.dist(pt, p) - true) > tol:
        raise Violation("project.nearest", f"|pt-p|={g2.dist(pt, p)}, true distance {true}")
    d3, pt3, t3 = base.pkg(de.distance_point_to_segment, tuple(p), tuple(s1), tuple(s2))
    if abs(d3 - true) > tol or g2.dist(pt3, pt) > tol or abs(t3 - t) > 1e-9:
        raise Violation("project.dps", f"distance_point_to_segment gives {(d3, pt3, t3)}, project {(pt, t)}, true d={true}")
    ft = g2.proj_exact(g2.fr(p), g2.fr(s1), g2.fr(s2))[1]
    if s1 == s2:
        return "zero-length"
    return "end" if ft in (0, 1) else "interior"


def check_box(p, r, angles):
    de = _de()
    lat_b, lon_l, lat_t, lon_r = base.pkg(de.box_around_point, tuple(p), r)
    slack = 1e-12 * max(1.0, abs(p[0]), abs(p[1]), r)
    for th in angles:
        q = (p[0] + r * math.cos(th), p[1] + r * math.sin(th))
        if g2.dist(p, q) > r:  # keep the sample inside the closed disc despite rounding
            q = (p[0] + r * (1 - 1e-15) * math.cos(th), p[1] + r * (1 - 1e-15) * math.sin(th))
        if not (lat_b - slack <= q[0] <= lat_t + slack and lon_l - slack <= q[1] <= lon_r + slack):
            raise Violation("box.contains", f"point {q} of the disc (p={p}, r={r}) outside box {(lat_b, lon_l, lat_t, lon_r)}")
    return "box"


def check_case(case, ctx):
    kind, pts = case["kind"], [tuple(p) for p in case["pts"]]
    if kind == "segseg":
        cls = check_segseg(*pts)
    elif kind == "project":
        cls = check_project(*pts)
    else:
        cls = check_box(pts[0], case["r"], case["angles"])
    nontrivial = len(set(pts)) > 1 or kind == "box"
    ctx.record(case, nontrivial, [f"{kind}:{cls}", "family:" + case.get("family", "?")], {"class": cls})


# ---- generators ------------------------------------------------------------------------------

_grid = st.integers(-4, 4).map(float)
_half = st.integers(-16, 16).map(lambda i: i / 4.0)
_flt = st.floats(-10, 10, allow_nan=False, allow_infinity=False)
_coord = st.one_of(_grid, _half, _flt)
_pt = st.tuples(_coord, _coord)
_dy = st.integers(-8, 8).map(lambda i: i / 4.0)  # dyadic multipliers keep constructions exact on dyadic points
_hpt = st.tuples(_half, _half)


@st.composite
def _segseg(draw):
    fam = draw(st.sampled_from(["general", "general", "parallel", "collinear", "touching", "zero", "nearpar", "scaled"]))
    if fam == "general":
        pts = [draw(_pt) for _ in range(4)]
    elif fam == "scaled":
        sc = draw(st.sampled_from([2.0 ** -20, 2.0 ** -16, 1e-5, 1e-3, 1e-2, 1e2, 1e3, 1e5, 1e6]))
        off = draw(st.sampled_from([(0.0, 0.0), (5e6, 3e6), (-7e6, 6.5e6)]))
        raw = [draw(st.one_of(_hpt, _pt)) for _ in range(4)]
        pts = [(off[0] + sc * p[0], off[1] + sc * p[1]) for p in raw]
    else:
        a, b = draw(_hpt), draw(_hpt)
        v = (b[0] - a[0], b[1] - a[1])
        if fam == "parallel":
            c = draw(_hpt)
            lam = draw(_dy)
            d = (c[0] + lam * v[0], c[1] + lam * v[1])
        elif fam == "collinear":
            mu, nu = draw(_dy), draw(_dy)
            c = (a[0] + mu * v[0], a[1] + mu * v[1])
            d = (a[0] + nu * v[0], a[1] + nu * v[1])
        elif fam == "touching":
            mu = draw(st.sampled_from([0.0, 0.25, 0.5, 1.0]))
            c = (a[0] + mu * v[0], a[1] + mu * v[1])
            d = draw(_hpt)
        elif fam == "zero":
            which = draw(st.integers(0, 2))
            c, d = draw(_pt), draw(_pt)
            if which in (0, 2):
                b = a
            if which in (1, 2):
                d = c
        else:  # nearpar
            c = draw(_hpt)
            lam = draw(_dy)
            eps = draw(st.sampled_from([1e-12, 1e-9, 1e-7, 1e-5, 1e-3]))
            d = (c[0] + lam * v[0] + eps, c[1] + lam * v[1] - eps)
        pts = [a, b, c, d]
        if draw(st.booleans()):
            pts = [pts[2], pts[3], pts[0], pts[1]]
    return {"kind": "segseg", "family": fam, "pts": [list(p) for p in pts]}


@st.composite
def _project(draw):
    fam = draw(st.sampled_from(["general", "scaled", "online", "zero"]))
    if fam == "general":
        pts = [draw(_pt) for _ in range(3)]
    elif fam == "scaled":
        sc = draw(st.sampled_from([2.0 ** -20, 2.0 ** -16, 1e-5, 1e-3, 1e-2, 1e2, 1e3, 1e5, 1e6]))
        off = draw(st.sampled_from([(0.0, 0.0), (5e6, 3e6), (-7e6, 6.5e6)]))
        pts = [(off[0] + sc * p[0], off[1] + sc * p[1]) for p in (draw(_pt), draw(_pt), draw(_pt))]
    elif fam == "online":
        a, b = draw(_hpt), draw(_hpt)
        mu = draw(_dy)
        pts = [a, b, (a[0] + mu * (b[0] - a[0]), a[1] + mu * (b[1] - a[1]))]
    else:
        a = draw(_pt)
        pts = [a, a, draw(_pt)]
    return {"kind": "project", "family": fam, "pts": [list(p) for p in pts]}


@st.composite
def _box(draw):
    sc = draw(st.sampled_from([1.0, 1.0, 1e3, 1e6]))
    p = draw(_pt)
    p = (sc * p[0], sc * p[1])
    r = draw(st.one_of(st.sampled_from([0.5, 1.0, 2.0, 50.0]), st.floats(1e-3, 1e4)))
    angles = [k * math.pi / 4 for k in range(8)] + draw(st.lists(st.floats(0, 6.3), min_size=1, max_size=4))
    return {"kind": "box", "family": "box", "pts": [list(p)], "r": r, "angles": angles}


def strategy(tier):
    return st.one_of(_segseg(), _segseg(), _segseg(), _project(), _project(), _box())


# ---- exhaustive small-scope enumeration ------------------------------------------------------

def _enum_segseg_worker(args):
    n, chunk = args
    base.load_repo()
    pts = [(float(i), float(j)) for i in range(n) for j in range(n)]
    classes, fail, cnt = {}, None, 0
    for ia in chunk:
        a = pts[ia]
        for b, c, d in itertools.product(pts, repeat=3):
            cnt += 1
            try:
                cls = check_segseg(a, b, c, d)
                classes[cls] = classes.get(cls, 0) + 1
            except Violation as v:
                if fail is None:
                    fail = {"case": {"kind": "segseg", "family": f"grid{n}", "pts": [list(a), list(b), list(c), list(d)]},
                            "clause": v.clause, "msg": v.msg}
    return cnt, classes, fail


def _enum_project_worker(args):
    n, chunk = args
    base.load_repo()
    pts = [(float(i), float(j)) for i in range(n) for j in range(n)]
    classes, fail, cnt = {}, None, 0
    for ia in chunk:
        a = pts[ia]
        for b, p in itertools.product(pts, repeat=2):
            cnt += 1
            try:
                cls = check_project(a, b, p)
                classes[cls] = classes.get(cls, 0) + 1
            except Violation as v:
                if fail is None:
                    fail = {"case": {"kind": "project", "family": f"grid{n}", "pts": [list(a), list(b), list(p)]},
                            "clause": v.clause, "msg": v.msg}
    return cnt, classes, fail


def extra_engines(tier, seed, scratch):
    n_ss, n_pr = (4, 5) if tier == "quick" else (5, 7)
    reports = []
    with multiprocessing.get_context("fork").Pool(16) as pool:
        for name, worker, n in (("segseg", _enum_segseg_worker, n_ss), ("project", _enum_project_worker, n_pr)):
            idx = list(range(n * n))
            chunks = [(n, idx[i::32]) for i in range(32)]
            total, classes, fail = 0, {}, None
            for cnt, cl, fl in pool.imap_unordered(worker, chunks):
                total += cnt
                for k, v in cl.items():
                    classes[f"enum-{name}:{k}"] = classes.get(f"enum-{name}:{k}", 0) + v
                if fl is not None and (fail is None or base.canon_json(fl["case"]) < base.canon_json(fail["case"])):
                    fail = fl
            if fail is not None:
                fail["origin"] = f"exhaustive {name} enumeration on the {n}x{n} integer grid"
            reports.append({"engine": f"enumeration-{name}-{n}x{n}", "evaluations": total, "classes": classes,
                            "nontrivial": [f"enum-{name}-{n}:{i}" for i in range(total - n * n)],
                            "samples": [], "excluded": {}, "known_seen": {},
                            "extra": {f"enum_{name}_grid": n, f"enum_{name}_cases": total}, "failure": fail})
    if tier == "thorough":
        from ..fuzz import run_atheris
        reports.append(run_atheris("C13", seed, scratch, runs=200000))
    return reports
