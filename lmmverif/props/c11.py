"""C11 — Spatial queries return exactly what lies within the radius.

Oracle: exhaustive scan of the generating model with independent geometry (exact rational in the plane,
unit-vector spherical for lat/lon): set equality, per-element distance / projection / relative position,
ordering, truncation."""
import math
import shutil
import tempfile
from fractions import Fraction as F

from hypothesis import strategies as st

from .. import base, gen, geom2d as g2, geomsph as gs
from ..base import Violation

RULE = ("cases: (backend in inmem/sqlite, magnitude in unit/projected-metres(5e6..7e6)/degrees, graph, query location, "
        "radius, max_elmt in None/0/1/3); query drawn relative to the content: node at distance r-eps along an axis, node "
        "exactly at r, long edge through the disc with both end points outside, near an edge, random; a third of the SQLite maps "
        "loaded call by call from a generated load plan, a third of the in-memory maps queried (same radius) while still growing; non-trivial = the true "
        "answer of the node or the edge query is non-empty and a proper subset of the map; distinct = case JSON")
ASSUMPTIONS = ["InMemMap without rtree index (rtree is not installed), SqliteMap with integer labels",
               "planar: element with |d-r| <= 1e-12*max(1,|coord|,r) and d != r is 'don't care'; d == r exactly (decided in rational "
               "arithmetic) must be excluded; lat/lon: don't-care band 1e-6 m (nodes) / 0.25 m + 1e-6 L (edges)",
               "open finding F1 is recognised only by its exact signature (in-memory edges_closeto, finite radius, only missing edges "
               "whose start node lies outside the package's own box)"]
TOLERANCES = {"planar_distance": "1e-11*max(1,|coord|)+1e-9*r", "latlon_node_m": 1e-6, "latlon_edge_m": "0.25+1e-6*L"}
BUDGET = {"quick": {"shards": 8, "examples": 1500}, "thorough": {"shards": 16, "examples": 8000}}


def _tmp():
    import os
    return "/dev/shm" if os.path.isdir("/dev/shm") and os.access("/dev/shm", os.W_OK) else None


class Ref:
    def __init__(self, case):
        self.latlon = case["metric"] == "latlon"
        self.graph = case["graph"]
        self.loc = {n[0]: (n[1][0], n[1][1]) for n in self.graph}
        self.q = tuple(case["loc"])
        self.r = math.inf if case["radius"] is None else case["radius"]  # None = unbounded (what the matchers pass without max_dist)
        M = max([abs(c) for p in self.loc.values() for c in p] + [abs(self.q[0]), abs(self.q[1])])
        self.M = M
        if self.latlon:
            self.band_node, self.tol_node = 1e-6, 1e-6
        else:
            self.band_node = 1e-12 * max(1.0, M, self.r)
            self.tol_node = 1e-11 * max(1.0, M) + 1e-9 * self.r
        self.exact_nodes = 0

    def node_dist(self, lab):
        """(distance, status) status in 'in' / 'out' / 'dontcare'"""
        p = self.loc[lab]
        if self.latlon:
            d = gs.dist(self.q, p)
            return d, self._status(d, self.band_node, None)
        d2 = g2.d2_exact(g2.fr(self.q), g2.fr(p))
        # an element exactly on the circle must be excluded, but that is only decidable where the package's own float
        # computation is exact: a node straight along an axis (sqrt(fl(r*r)) == r); anywhere else rounding may land on
        # either side and the element is "don't care"
        axis = (self.q[0] == p[0]) or (self.q[1] == p[1])
        return g2.sqrt_fr(d2), self._status(g2.sqrt_fr(d2), self.band_node, d2, exact_ok=axis)

    def edge_dist(self, a, b):
        pa, pb = self.loc[a], self.loc[b]
        if self.latlon:
            d, pi, t = gs.pt_arc(self.q, pa, pb)
            L = gs.dist(pa, pb)
            band = 0.25 + 1e-6 * L
            return d, self._status(d, band, None), band
        d2 = g2.pt_seg_d2_exact(g2.fr(self.q), g2.fr(pa), g2.fr(pb))
        d = g2.sqrt_fr(d2)
        return d, self._status(d, self.band_node, d2, exact_ok=False), self.tol_node

    def _status(self, d, band, d2, exact_ok=False):
        r = self.r
        if math.isinf(r):
            return "in"
        if d2 is not None:
            r2 = F(r) ** 2
            if d2 == r2:
                if not exact_ok:
                    return "dontcare"  # (the projected point s1 + t (s2 - s1) is itself rounded)
                self.exact_nodes += 1
                return "out"  # exactly on the circle: not below the radius
            if abs(d - r) <= band:
                return "dontcare"
            return "in" if d2 < r2 else "out"
        if abs(d - r) <= band:
            return "dontcare"
        return "in" if d < r else "out"


def pkg_box_contains(m, q, r, p):
    lat_b, lon_l, lat_t, lon_r = m.box_around_point((q[0], q[1]), r)
    return lat_b <= p[0] <= lat_t and lon_l <= p[1] <= lon_r


def check_sorted_trunc(kind, dists, full_sorted_ref, max_elmt, tol):
    for a, b in zip(dists, dists[1:]):
        if b < a:
            raise Violation(f"{kind}.sorted", f"distances not ascending: {dists}")
    if max_elmt is not None:
        if len(dists) > max_elmt:
            raise Violation(f"{kind}.truncate", f"{len(dists)} elements returned, max_elmt={max_elmt}")


def check_query(case, m, ref, ctx, classes):
    q, r, me = ref.q, ref.r, case["max_elmt"]
    edges = base.graph_edges(ref.graph)
    # ---------------- nodes
    with base.quiet():
        res = base.pkg(m.nodes_closeto, q, max_dist=r, max_elmt=me)  # r is math.inf for an unbounded query
    info = {lab: ref.node_dist(lab) for lab in ref.loc}
    must = {lab for lab, (d, s) in info.items() if s == "in"}
    may = must | {lab for lab, (d, s) in info.items() if s == "dontcare"}
    got = []
    for row in res:
        d, lab, loc = row[0], row[1], tuple(row[2])
        if lab not in ref.loc:
            raise Violation("nodes.unknown", f"node {lab!r} is not in the map")
        if lab not in may:
            raise Violation("nodes.extra", f"node {lab!r} at distance {info[lab][0]} returned for radius {r}")
        if abs(d - info[lab][0]) > ref.tol_node:
            raise Violation("nodes.distance", f"node {lab!r}: reported distance {d}, true {info[lab][0]}")
        if g2.dist(loc, ref.loc[lab]) > 0:
            raise Violation("nodes.location", f"node {lab!r}: reported location {loc}, stored {ref.loc[lab]}")
        got.append(lab)
    if len(set(got)) != len(got):
        raise Violation("nodes.duplicate", f"duplicates in {got}")
    check_sorted_trunc("nodes", [row[0] for row in res], None, me, ref.tol_node)
    if me is None:
        missing = must - set(got)
        if missing:
            lab = sorted(missing, key=repr)[0]
            raise Violation("nodes.missing", f"node {lab!r} at distance {info[lab][0]} < radius {r} not returned "
                                             f"({case['backend']}, |coord|~{ref.M:.3g})")
    else:
        want = sorted(info[lab][0] for lab in must)[:me]
        if len(got) < min(me, len(must)):
            raise Violation("nodes.truncate", f"{len(got)} nodes returned, {min(me, len(must))} expected (max_elmt={me})")
        for dg, dw in zip(sorted(info[lab][0] for lab in got), want):
            if dg > dw + ref.tol_node + ref.band_node:
                raise Violation("nodes.truncate", f"returned nodes are not the {me} nearest: distances {sorted(info[l][0] for l in got)} vs {want}")
    nn = len(must)
    # ---------------- edges
    with base.quiet():
        res = base.pkg(m.edges_closeto, q, max_dist=r, max_elmt=me)
    einfo = {e: ref.edge_dist(*e) for e in edges}
    must = {e for e, (d, s, _t) in einfo.items() if s == "in"}
    may = must | {e for e, (d, s, _t) in einfo.items() if s == "dontcare"}
    got = []
    for row in res:
        d, a, la, b, lb, pi, ti = row
        e = (a, b)
        if e not in einfo:
            raise Violation("edges.unknown", f"edge {e} is not a directed edge of the map")
        if e not in may:
            raise Violation("edges.extra", f"edge {e} at distance {einfo[e][0]} returned for radius {r}")
        tol = einfo[e][2]
        if abs(d - einfo[e][0]) > tol:
            raise Violation("edges.distance", f"edge {e}: reported distance {d}, true {einfo[e][0]}")
        if tuple(la) != ref.loc[a] or tuple(lb) != ref.loc[b]:
            raise Violation("edges.location", f"edge {e}: reported end points {la},{lb}")
        if not (0.0 <= ti <= 1.0):
            raise Violation("edges.position", f"edge {e}: relative position {ti}")
        if ref.latlon:
            if gs.dist(pi, gs.at(ref.loc[a], ref.loc[b], ti)) > tol or abs(gs.dist(pi, q) - d) > tol:
                raise Violation("edges.projection", f"edge {e}: projection {pi} / position {ti} inconsistent with distance {d}")
        else:
            if g2.dist(pi, g2.at(ref.loc[a], ref.loc[b], ti)) > tol or abs(g2.dist(pi, q) - d) > tol:
                raise Violation("edges.projection", f"edge {e}: projection {pi} / position {ti} inconsistent with distance {d}")
        got.append(e)
    if len(set(got)) != len(got):
        raise Violation("edges.duplicate", f"duplicates in {got}")
    check_sorted_trunc("edges", [row[0] for row in res], None, me, 0)
    missing = must - set(got)
    if case["backend"] == "inmem" and not math.isinf(r) and missing:
        f1 = {e for e in missing if not pkg_box_contains(m, q, r, ref.loc[e[0]])}
        if f1 and ctx.known("F1", "InMemMap.edges_closeto drops edges whose start node lies outside the box around the location"):
            classes.append("excluded:F1")
            must = must - f1
            missing = missing - f1
    if ref.latlon and missing:
        am = {e for e in missing if abs(ref.loc[e[0]][1] - ref.loc[e[1]][1]) > 180.0}
        if am and ctx.known("KF-C11-AM-EDGE", "an edge whose end points lie on both sides of the antimeridian is indexed / pre-filtered by "
                                              "its raw longitudes, so a finite-radius edge query near the line does not return it"):
            classes.append("excluded:KF-C11-AM-EDGE")
            must = must - am
            missing = missing - am
    if ref.latlon and missing and not math.isinf(r):
        # a great-circle arc bulges poleward of both its end points: an edge whose end points both lie outside the latitude
        # range of the disc can still come within the radius, but no bounding-box test on its end points can find it
        dlat = math.degrees(r / 6371000.0)
        bulge = {e for e in missing if max(ref.loc[e[0]][0], ref.loc[e[1]][0]) < q[0] - dlat or
                 min(ref.loc[e[0]][0], ref.loc[e[1]][0]) > q[0] + dlat}
        if bulge and ctx.known("KF-C11-ARC-BULGE", "a long east-west edge whose end points both lie just outside the latitude range of the "
                                                   "search disc is pre-filtered by the bounding box of its end points, although its "
                                                   "great-circle arc bulges poleward into the disc"):
            classes.append("excluded:KF-C11-ARC-BULGE")
            must = must - bulge
            missing = missing - bulge
    if me is None:
        if missing:
            e = sorted(missing, key=repr)[0]
            raise Violation("edges.missing", f"edge {e} at distance {einfo[e][0]} < radius {r} not returned "
                                             f"({case['backend']}, |coord|~{ref.M:.3g})")
    else:
        want = sorted(einfo[e][0] for e in must)[:me]
        if len(got) < min(me, len(must)):
            raise Violation("edges.truncate", f"{len(got)} edges returned, {min(me, len(must))} expected (max_elmt={me})")
        for dg, dw in zip(sorted(einfo[e][0] for e in got), want):
            if dg > dw + max(t for _, _, t in einfo.values()) * 2:
                raise Violation("edges.truncate", f"returned edges are not the {me} nearest")
    ne = len(must)
    long_edge = any(einfo[e][1] == "in" and ref.node_dist(e[0])[1] == "out" and ref.node_dist(e[1])[1] == "out" for e in edges)
    return nn, ne, len(ref.loc), len(edges), long_edge


def check_case(case0, ctx):
    case = dict(case0, graph=xl_graph(case0["xl_side"])) if "xl_side" in case0 else case0
    ref = Ref(case)
    classes = [case["backend"], "magnitude:" + case["magnitude"], "mode:" + case["mode"], "max_elmt:%s" % case["max_elmt"]]
    d = None
    try:
        if case["backend"] == "sqlite":
            d = tempfile.mkdtemp(prefix="lmmv_c11_", dir=_tmp())
            m = base.mk_sqlite(case["graph"], d, latlon=ref.latlon, plan=case.get("load_plan"))
        else:
            m = base.mk_inmem(case["graph"], latlon=ref.latlon, steps=case.get("build_steps"))
        try:
            nn, ne, N, E, long_edge = check_query(case, m, ref, ctx, classes)
        finally:
            if d is not None:
                m.db.close()
    finally:
        if d is not None:
            shutil.rmtree(d, ignore_errors=True)
    if case.get("load_plan"):
        classes.append("sqlite-loaded-call-by-call")
    if case.get("build_steps"):
        classes.append("inmem-queried-while-growing")
    if long_edge:
        classes.append("long-edge-through-disc")
    if ref.exact_nodes:
        classes.append("exactly-at-radius")
    nontrivial = (0 < nn < N) or (0 < ne < E)
    ctx.record(case0, nontrivial, classes, {"nodes_within": nn, "edges_within": ne, "nodes": N, "edges": E})


@st.composite
def _xl_case(draw):
    """A big map (34x34 .. 40x40 grid: 1156-1600 nodes, ~4500-6200 directed edges) and a radius that covers more than a
    thousand nodes and edges: result sets beyond any small internal batch or page size."""
    side = draw(st.sampled_from([34, 36, 40]))
    backend = draw(st.sampled_from(["sqlite", "sqlite", "inmem"]))
    q = [draw(st.integers(0, 4 * side)) / 4.0 + 0.125, draw(st.integers(0, 4 * side)) / 4.0 + 0.0625]
    r = draw(st.sampled_from([None, float(side), 0.75 * side, 21.3]))
    me = draw(st.sampled_from([None, None, 3, 1500]))
    # (the graph itself is rebuilt from `xl_side` by check_case: the case document stays small)
    return {"backend": backend, "magnitude": "unit", "mode": "xl" + ("+unbounded" if r is None else ""), "max_elmt": me,
            "metric": "planar", "xl_side": side, "loc": q, "radius": r}


def xl_graph(side):
    g = []
    for i in range(side):
        for j in range(side):
            nb = []
            if j + 1 < side:
                nb.append(i * side + j + 1)
            if j > 0:
                nb.append(i * side + j - 1)
            if i + 1 < side:
                nb.append((i + 1) * side + j)
            if i > 0 and (i + j) % 3:
                nb.append((i - 1) * side + j)  # some one-way streets
            g.append([i * side + j, [float(i), float(j)], nb])
    return g


@st.composite
def _case(draw, tier):
    if draw(st.sampled_from(range(300))) == 150:
        return draw(_xl_case())
    sz = gen.sizes(tier)
    backend = draw(st.sampled_from(["inmem", "sqlite"]))
    magnitude = draw(st.sampled_from(["unit", "metres", "metres", "degrees"]))
    g = draw(gen.planar_graph(max_nodes=sz["max_nodes"], label_kinds=("int",) if backend == "sqlite" else ("int", "str"),
                              families=["grid", "grid", "float", "chain", "oneway"]))
    loc, adj = gen.model_of(g)
    edges = base.graph_edges(g)
    unit = 1.0 if magnitude == "unit" else draw(st.sampled_from([10.0, 100.0]))
    if magnitude == "degrees" and draw(st.integers(0, 5)) == 0:
        unit = 20000.0  # regional scale: radii of tens of km, where the shape of the lat/lon box matters
    mode = draw(st.sampled_from(["axis", "axis", "exact_r", "long_edge", "near_edge", "random"]))
    if mode in ("long_edge", "near_edge") and not edges:
        mode = "random"
    nodes = list(loc)
    dirs = [(1, 0), (-1, 0), (0, 1), (0, -1)]
    if mode == "axis":
        n = gen.pick(draw, nodes)
        dy, dx = gen.pick(draw, dirs)
        r = gen.pick(draw, [0.5, 1.0, 1.5, 2.5])
        eps = gen.pick(draw, [0.001, 0.01, 0.1, 0.3]) / (unit if unit > 1 else 10.0)
        q = (loc[n][0] - dy * (r - eps), loc[n][1] - dx * (r - eps))
    elif mode == "exact_r":
        n = gen.pick(draw, nodes)
        dy, dx = gen.pick(draw, dirs)
        r = gen.pick(draw, [0.5, 1.0, 1.5, 2.0])
        q = (loc[n][0] - dy * r, loc[n][1] - dx * r)
    elif mode in ("long_edge", "near_edge"):
        a, b = gen.pick(draw, edges)
        f = draw(st.integers(3, 7)) / 10.0
        pa, pb = loc[a], loc[b]
        L = g2.dist(pa, pb)
        off = gen.pick(draw, [0.0, 0.05, 0.1, 0.3])
        nx, ny = (-(pb[1] - pa[1]) / L, (pb[0] - pa[0]) / L) if L > 0 else (0.0, 1.0)
        q = (pa[0] + f * (pb[0] - pa[0]) + off * ny, pa[1] + f * (pb[1] - pa[1]) + off * nx)
        if mode == "long_edge":
            r = max(off * 1.5, 0.05) if L > 0 else 0.5
            r = min(max(r, off + 0.02), max(0.45 * min(f, 1 - f) * L, off + 0.02))
        else:
            r = off * gen.pick(draw, [0.9, 1.1, 2.0]) + gen.pick(draw, [0.0, 0.2])
            r = max(r, 0.01)
    else:
        ys, xs = [p[0] for p in loc.values()], [p[1] for p in loc.values()]
        q = (min(ys) - 1 + draw(st.integers(0, 100)) / 100.0 * (max(ys) - min(ys) + 2),
             min(xs) - 1 + draw(st.integers(0, 100)) / 100.0 * (max(xs) - min(xs) + 2))
        r = gen.pick(draw, [0.3, 0.7, 1.0, 1.5, 3.0, 10.0])
    if draw(st.integers(0, 9)) == 0:
        r = None  # unbounded radius
        mode = mode + "+unbounded"
    me = draw(st.sampled_from([None, None, None, 0, 1, 3]))
    case = {"backend": backend, "magnitude": magnitude, "mode": mode, "max_elmt": me}
    if r is None:
        pass
    if magnitude == "degrees":
        org = draw(gen.origin())
        if draw(st.integers(0, 7)) == 0:
            org[1] = draw(st.sampled_from([180.0, -180.0, 179.999, -179.9995]))  # content on both sides of the antimeridian
        case.update(metric="latlon", graph=gen.place_graph(g, org, unit),
                    loc=list(gs.local_to_latlon(org, q[0] * unit, q[1] * unit)), radius=None if r is None else r * unit, origin=org)
    elif magnitude == "metres":
        oy, ox = gen.pick(draw, [(5.0e6, 3.0e6), (6.5e6, 7.0e6), (5123456.0, 654321.0)])
        case.update(metric="planar", graph=[[lab, [oy + unit * p[0], ox + unit * p[1]], list(nb)] for lab, p, nb in g],
                    loc=[oy + unit * q[0], ox + unit * q[1]], radius=None if r is None else r * unit)
    else:
        case.update(metric="planar", graph=g, loc=[q[0], q[1]], radius=r)
    if backend == "inmem" and len(case["graph"]) >= 2 and case["radius"] is not None and gen.chance(draw, 3):
        # the map is used (same radius, around one of its first nodes) while it is still being built
        k = draw(st.integers(1, len(case["graph"]) - 1))
        gg = case["graph"]
        if gen.chance(draw, 5):
            gg = sorted(gg, key=lambda n: abs(n[1][0]))  # the nodes nearest to the equator first (lat/lon: the others are added later)
            case["graph"] = gg
        case["build_steps"] = {"first": k, "warm": [[list(gg[draw(st.integers(0, k - 1))][1]), case["radius"]]]}
    if backend == "sqlite" and gen.chance(draw, 4):
        # the SQLite map is loaded call by call (per-call flags, repeated nodes/edges, re-index calls) instead of in bulk
        case["load_plan"] = draw(gen.load_plan(case["graph"]))
    return case


def strategy(tier):
    return _case(tier)
