"""C04 — The matched sequence is a walk in the road graph.

Oracle: validity predicate against the generating adjacency model (never the map object's own answers)."""
from hypothesis import strategies as st

from .. import base, gen, audit
from . import common

RULE = ("cases: (planar graph with one-way streets / dead ends / self-listed neighbours / linked parallel edges, trace, any "
        "configuration, optional history of extend / widen / rematch calls); non-trivial = best path with >= 2 distinct states; "
        "classes: linked edge used, U-turn, non-emitting run, history; distinct = case JSON")
ASSUMPTIONS = ["planar metric, InMemMap; graphs <= 12 nodes, traces <= 12 points", "continue_with_distance (the jump operation) is not used",
               "the nodes-only view is required only on maps without linked edges"]
TOLERANCES = {}
BUDGET = {"quick": {"shards": 8, "examples": 1200}, "thorough": {"shards": 16, "examples": 12000}}
FUZZ = {"thorough": {"runs": 15000, "seed_inputs": 16, "max_len": 4096,
                     "include": ("leuvenmapmatching.matcher", "leuvenmapmatching.util", "leuvenmapmatching.map")}}


def check_case(case, ctx):
    classes = set()

    def after(matcher, op, states, idx, cur):
        if states is not None:
            classes.update(audit.audit_walk(matcher, case["graph"], case.get("linked")))

    matcher, res, cur, applied = common.apply_history(case, after=after)
    lb = matcher.lattice_best or []
    distinct = len({m.shortkey for m in lb})
    cl = sorted(classes) + ["family:" + case["config"]["family"], "ops:%d" % min(len(applied), 3)]
    if case.get("linked"):
        cl.append("map-with-linked-edges")
    ctx.record(case, distinct >= 2, cl, base.canon(matcher, res[0], res[1]) if res else None)


def strategy(tier):
    sz = gen.sizes(tier)

    @st.composite
    def _s(draw):
        case = draw(common.mixed_case(tier, graph_kw={"families": ["grid", "oneway", "oneway", "chain", "chain", "float", "twocomp"]},
                                      trace_kw={"kinds": ["walk", "walk", "sparse", "sparse", "outlier", "exact", "random"]}))
        if draw(st.integers(0, 2)) == 0:
            case["linked"] = draw(common.linked_pairs(case["graph"]))
        if draw(st.booleans()):
            case["ops"] = draw(common.history_ops(len(case["trace"])))
        else:
            case["ops"] = [["match", len(case["trace"])]]
        case["unique"] = draw(st.booleans())
        return case
    return _s()
