"""C18 — A stored map is the same map when opened again.

Model-based, operation sequences as data: build operations (single / bulk inserts, deferred commit / index,
re-indexing, commit) interleaved with reopen cycles are applied to the real map and to an in-memory model;
at every reopen the answers before closing, after reopening and of the model must coincide."""
import json
import os
import shutil
import tempfile

from hypothesis import strategies as st

from .. import base, gen
from ..base import Violation

RULE = ("cases: (backend sqlite/pickle, metric flag, crs strings, operation list); operations add_node / add_nodes / add_edge / "
        "add_edges (with no_index / no_commit), reindex_nodes / reindex_edges / commit and reopen (1-4 cycles, the last operation "
        "is always a reopen); before a reopen the documented obligations are met (deferred commits committed, deferred indexes "
        "rebuilt); non-trivial = at least one reopen of a map with >=2 nodes and >=1 edge; distinct = case JSON")
ASSUMPTIONS = ["labels: non-negative ints for SQLite, ints or strings for the pickle", "every edge joins existing nodes; a node is added twice only with ignore_doubles=True (documented to be ignored); "
               "bulk add_edges never repeats an edge (plain INSERT)", "a user who never commits a no_commit insert is outside the property",
               "spatial queries compared on 3 drawn (location, radius) pairs per case",
               "a third of the SQLite histories are additionally reopened by a second interpreter started with another PYTHONHASHSEED"]
TOLERANCES = {"answers": "exact equality"}
BUDGET = {"quick": {"shards": 8, "examples": 600}, "thorough": {"shards": 16, "examples": 4000}}


def _tmp():
    return "/dev/shm" if os.path.isdir("/dev/shm") and os.access("/dev/shm", os.W_OK) else None


def t2(p):
    return (float(p[0]), float(p[1]))


_worker = []


def other_process():
    """A persistent second interpreter with another PYTHONHASHSEED: a stored map must not depend on the process that wrote it."""
    import atexit
    import subprocess
    import sys
    if _worker:
        return _worker[0]
    env = dict(os.environ, PYTHONHASHSEED="4242", PYTHONWARNINGS="ignore")
    env["PYTHONPATH"] = base.VERIF + os.pathsep + env.get("PYTHONPATH", "")
    p = subprocess.Popen([sys.executable, "-m", "lmmverif.reopen_worker"], cwd=base.VERIF, env=env, stdin=subprocess.PIPE,
                         stdout=subprocess.PIPE, text=True, bufsize=1)
    line = p.stdout.readline()
    if not line or not json.loads(line).get("ready"):
        raise base.HarnessError("reopen worker did not start")
    _worker.append(p)

    def stop():
        try:
            p.stdin.close()
            p.wait(timeout=5)
        except Exception:  # noqa
            p.kill()
    atexit.register(stop)
    return p


def answers_in_other_process(fn, queries):
    p = other_process()
    p.stdin.write(base.canon_json({"file": fn, "queries": queries}) + "\n")
    p.stdin.flush()
    line = p.stdout.readline()
    if not line:
        raise base.HarnessError("reopen worker died")
    return json.loads(line)


def answers(m, queries, with_flags=True):
    pk = base.pkg
    out = {}
    if with_flags:
        out["use_latlon"] = bool(m.use_latlon)
        out["metric_module"] = m.distance.__module__.rsplit(".", 1)[-1]
        out["metric_module_seg"] = m.distance_point_to_segment.__module__.rsplit(".", 1)[-1]
        out["crs_lonlat"] = m.crs_lonlat
        out["crs_xy"] = m.crs_xy
    out["size"] = pk(m.size)
    out["labels"] = sorted(pk(m.labels), key=repr)
    nodes = sorted(((l, t2(p)) for l, p in pk(lambda: list(m.all_nodes()))), key=repr)
    out["all_nodes"] = nodes
    edges = sorted(((a, t2(pa), b, t2(pb)) for a, pa, b, pb in pk(lambda: list(m.all_edges()))), key=repr)
    out["all_edges"] = edges
    out["coords"] = [(l, t2(pk(m.node_coordinates, l))) for l in out["labels"]]
    out["nodes_nbrto"] = [(l, sorted(((n, t2(p)) for n, p in pk(m.nodes_nbrto, l)), key=repr)) for l in out["labels"]]
    out["edges_nbrto"] = [((a, b), sorted(((l1, t2(p1), l2, t2(p2)) for l1, p1, l2, p2 in pk(m.edges_nbrto, (a, b))), key=repr))
                          for a, _, b, _ in edges]
    if out["size"]:
        out["bb"] = tuple(pk(m.bb))
    cl = []
    for loc, r in queries:
        nn = [(round(d, 12), l) for d, l, _ in pk(m.nodes_closeto, tuple(loc), max_dist=r)]
        ee = [(round(row[0], 12), row[1], row[3], round(row[6], 12)) for row in pk(m.edges_closeto, tuple(loc), max_dist=r)]
        cl.append((sorted(nn, key=repr), sorted(ee, key=repr)))
    out["closeto"] = cl
    return out


def diff(a, b):
    for k in a:
        if a[k] != b.get(k):
            return k, a[k], b.get(k)
    return None


def run_sqlite(case, ctx, d):
    from leuvenmapmatching.map.sqlite import SqliteMap
    pk = base.pkg
    latlon = case["latlon"]
    kw = {}
    if case.get("crs_lonlat"):
        kw["crs_lonlat"] = case["crs_lonlat"]
    if case.get("crs_xy"):
        kw["crs_xy"] = case["crs_xy"]
    prior = case.get("prior")
    if prior:
        # the file name already holds another map (other metric flag / projection settings, some content): constructing the map
        # again re-creates the tables, so what is stored afterwards must be the second map only
        m0 = pk(SqliteMap, "stored", use_latlon=prior["latlon"], dir=d, **prior.get("kw", {}))
        for lab, loc in prior["nodes"]:
            pk(m0.add_node, lab, tuple(loc))
        if len(prior["nodes"]) >= 2:
            pk(m0.add_edge, prior["nodes"][0][0], prior["nodes"][1][0])
        m0.db.close()
    m = pk(SqliteMap, "stored", use_latlon=latlon, dir=d, **kw)
    nodes, edges = {}, []
    # what still lacks an index row: nodes added with no_index; edges whose every add_edge call so far said no_index
    un_nodes, un_edges, uncommitted = set(), set(), False
    reopens = 0
    stats = {"deferred": False, "linked": False, "other_process": False}
    for op in case["ops"]:
        k = op[0]
        if k == "add_node":
            _, lab, loc, no_index, no_commit = op
            pk(m.add_node, lab, tuple(loc), no_index=no_index, no_commit=no_commit)
            nodes[lab] = t2(loc)
            if no_index:
                un_nodes.add(lab)
            uncommitted |= no_commit
            if not no_commit:
                uncommitted = False
        elif k == "add_node_again":
            # a known label with ignore_doubles=True: documented to be ignored (the stored coordinates stay)
            pk(m.add_node, op[1], tuple(op[2]), ignore_doubles=True)
            stats["repeated_node"] = True
        elif k == "add_nodes":
            pk(m.add_nodes, [(l, tuple(p)) for l, p in op[1]])
            for l, p in op[1]:
                nodes[l] = t2(p)
            uncommitted = False
        elif k == "add_edge":
            _, a, b, no_index, no_commit = op
            pk(m.add_edge, a, b, no_index=no_index, no_commit=no_commit)
            if (a, b) not in edges:
                edges.append((a, b))
                if no_index:
                    un_edges.add((a, b))
            elif not no_index:
                un_edges.discard((a, b))  # adding a known edge again with the index on also writes its missing index row
            uncommitted |= no_commit
            if not no_commit:
                uncommitted = False
        elif k == "add_edges":
            pk(m.add_edges, [tuple(e) for e in op[1]], no_index=op[2])
            for e in op[1]:
                edges.append(tuple(e))
            if op[2]:
                un_edges |= {tuple(e) for e in op[1]}
            else:
                un_edges = set()  # add_edges re-indexes all edges
            uncommitted = False
        elif k == "reindex_nodes":
            pk(m.reindex_nodes)
            un_nodes, uncommitted = set(), False
        elif k == "reindex_edges":
            pk(m.reindex_edges)
            un_edges, uncommitted = set(), False
        elif k == "commit":
            pk(m.db.commit)
            uncommitted = False
        elif k == "connect_parallelroads":
            if un_nodes or un_edges:
                continue  # needs the indexes (documented obligation of the deferred modes)
            pk(m.connect_parallelroads, dist=op[1])
            uncommitted = False
            # (fetchall, and no cursor kept in this frame: an unfinished SELECT on a live cursor keeps the connection - and its
            # read lock - alive after close())
            n_links = m.db.execute("SELECT count(*) FROM close_edges").fetchall()[0][0]
            stats["linked"] = stats["linked"] or n_links > 0
        elif k == "reopen":
            stats["deferred"] |= bool(un_nodes or un_edges or uncommitted)
            # documented obligations of the deferred modes
            if un_nodes:
                pk(m.reindex_nodes)
                un_nodes, uncommitted = set(), False
            if un_edges:
                pk(m.reindex_edges)
                un_edges, uncommitted = set(), False
            if uncommitted:
                pk(m.db.commit)
                uncommitted = False
            before = answers(m, case["queries"])
            # the model
            want_nodes = sorted(nodes.items(), key=repr)
            if before["all_nodes"] != want_nodes:
                raise Violation("model.nodes", f"before closing: all_nodes {before['all_nodes']} != inserted {want_nodes}")
            want_edges = sorted(((a, nodes[a], b, nodes[b]) for a, b in edges), key=repr)
            if before["all_edges"] != want_edges:
                raise Violation("model.edges", f"before closing: all_edges {before['all_edges']} != inserted {want_edges}")
            if before["use_latlon"] != latlon or before["metric_module"] != ("dist_latlon" if latlon else "dist_euclidean"):
                raise Violation("model.flag", f"metric flag before closing: {before['use_latlon']}/{before['metric_module']}, created with {latlon}")
            for key in ("crs_xy", "crs_lonlat"):
                if case.get(key) and before.get(key) != case[key]:
                    raise Violation("model.crs", f"{key} before closing is {before.get(key)!r}, the map was created with {case[key]!r}")
            m.db.close()
            if case.get("other_process"):
                res = answers_in_other_process(os.path.join(d, "stored.sqlite"), case["queries"])
                if "raised" in res:
                    raise Violation("reopen.other-process.raised", f"opening the stored map in another process raised {res['raised']}: {res.get('msg')}")
                b, o = base.jsonable(before), res["answers"]
                for key in b:
                    if b[key] != o.get(key):
                        raise Violation(f"reopen.other-process.{key}", f"cycle {reopens + 1}: {key} before closing {b[key]!r}, opened in another "
                                                                       f"process (other hash seed) {o.get(key)!r}")
                stats["other_process"] = True
            m = pk(SqliteMap.from_file, os.path.join(d, "stored.sqlite"))
            reopens += 1
            after = answers(m, case["queries"])
            df = diff(before, after)
            if df:
                raise Violation(f"reopen.{df[0]}", f"cycle {reopens}: {df[0]} before closing {df[1]!r}, after reopening {df[2]!r}")
    m.db.close()
    return len(nodes), len(edges), reopens, stats


def run_pickle(case, ctx, d):
    from leuvenmapmatching.map.inmem import InMemMap
    pk = base.pkg
    latlon = case["latlon"]
    kw = {}
    if case.get("crs_lonlat"):
        kw["crs_lonlat"] = case["crs_lonlat"]
    if case.get("crs_xy"):
        kw["crs_xy"] = case["crs_xy"]
    linked = None
    if case.get("linked"):
        linked = {}
        for a, b in case["linked"]:
            linked.setdefault(tuple(a), set()).add(tuple(b))
    m = pk(InMemMap, "stored", use_latlon=latlon, use_rtree=False, dir=d, linked_edges=linked, **kw)
    nodes, edges, reopens, repeated = {}, [], 0, False
    for op in case["ops"]:
        k = op[0]
        if k in ("add_node",):
            pk(m.add_node, op[1], tuple(op[2]))
            nodes[op[1]] = t2(op[2])
        elif k == "add_node_again":
            # InMemMap.add_node of a known label keeps the stored coordinates
            pk(m.add_node, op[1], tuple(op[2]))
            repeated = True
        elif k == "add_nodes":
            for l, p in op[1]:
                pk(m.add_node, l, tuple(p))
                nodes[l] = t2(p)
        elif k == "add_edge":
            pk(m.add_edge, op[1], op[2])
            if (op[1], op[2]) not in edges:
                edges.append((op[1], op[2]))
        elif k == "add_edges":
            for a, b in op[1]:
                pk(m.add_edge, a, b)
                if (a, b) not in edges:
                    edges.append((a, b))
        elif k == "reopen":
            before = answers(m, case["queries"]) if nodes else None
            g_before = {l: (t2(v[0]), list(v[1])) for l, v in m.graph.items()}
            le_before = m.linked_edges
            pk(m.dump)
            m2 = pk(InMemMap.from_pickle, os.path.join(d, "stored.pkl"))
            reopens += 1
            g_after = {l: (t2(v[0]), list(v[1])) for l, v in m2.graph.items()}
            if g_after != g_before:
                raise Violation("reopen.graph", f"cycle {reopens}: graph {g_before} reloaded as {g_after}")
            if m2.linked_edges != le_before:
                raise Violation("reopen.linked_edges", f"cycle {reopens}: linked edges {le_before} reloaded as {m2.linked_edges}")
            if bool(m2.use_latlon) != latlon or m2.distance.__module__.rsplit(".", 1)[-1] != ("dist_latlon" if latlon else "dist_euclidean"):
                raise Violation("reopen.use_latlon", f"cycle {reopens}: metric flag {latlon} reloaded as {m2.use_latlon}/{m2.distance.__module__}")
            if m2.crs_lonlat != m.crs_lonlat or m2.crs_xy != m.crs_xy or m2.name != m.name:
                raise Violation("reopen.crs", f"cycle {reopens}: projection settings changed")
            for key in ("crs_xy", "crs_lonlat"):
                if case.get(key) and getattr(m, key) != case[key]:
                    raise Violation("model.crs", f"{key} before dump is {getattr(m, key)!r}, the map was created with {case[key]!r}")
            want_nodes = sorted(nodes.items(), key=repr)
            got_nodes = sorted(((l, t2(p)) for l, p in m2.all_nodes()), key=repr)
            if got_nodes != want_nodes:
                raise Violation("model.nodes", f"reloaded nodes {got_nodes} != inserted {want_nodes}")
            if before is not None:
                after = answers(m2, case["queries"])
                df = diff(before, after)
                if df:
                    raise Violation(f"reopen.{df[0]}", f"cycle {reopens}: {df[0]} before dump {df[1]!r}, after load {df[2]!r}")
            m = m2
    return len(nodes), len(edges), reopens, {"deferred": False, "linked": False, "other_process": False, "repeated_node": repeated}


def check_case(case, ctx):
    base.load_repo()
    d = tempfile.mkdtemp(prefix="lmmv_c18_", dir=_tmp())
    try:
        with base.quiet():
            if case["backend"] == "sqlite":
                n, e, reopens, stats = run_sqlite(case, ctx, d)
            else:
                n, e, reopens, stats = run_pickle(case, ctx, d)
    finally:
        shutil.rmtree(d, ignore_errors=True)
    classes = [case["backend"], "latlon" if case["latlon"] else "planar", "cycles:%d" % min(reopens, 3)]
    if stats.get("repeated_node"):
        classes.append("repeated-node")
    if stats["deferred"]:
        classes.append("deferred-ops")
    if stats.get("linked"):
        classes.append("sqlite-linked-parallel-roads")
    if stats.get("other_process"):
        classes.append("reopened-in-another-process")
    if case.get("crs_xy") or case.get("crs_lonlat"):
        classes.append("custom-crs")
    if case.get("linked"):
        classes.append("linked-edges")
    ctx.record(case, reopens >= 1 and n >= 2 and e >= 1, classes, {"nodes": n, "edges": e, "reopens": reopens})


@st.composite
def _case(draw, tier):
    backend = draw(st.sampled_from(["sqlite", "sqlite", "pickle"]))
    latlon = draw(st.booleans())
    kind = "int" if backend == "sqlite" else draw(st.sampled_from(["int", "str"]))
    nmax = 6 if tier == "quick" else 9
    labs = draw(gen.labels(draw(st.integers(2, nmax)), kind))
    if latlon:
        org = draw(gen.origin())
        def point():
            return [org[0] + draw(st.integers(-50, 50)) * 1e-4, org[1] + draw(st.integers(-50, 50)) * 1e-4]
        qr = [50.0, 300.0, 2000.0]
    else:
        big = draw(st.booleans())
        def point():
            p = [draw(st.integers(0, 8)) * 0.5, draw(st.integers(0, 8)) * 0.5]
            return [5e6 + 100 * p[0] + 0.3, 3e6 + 100 * p[1] + 0.7] if big else p
        qr = [50.0, 150.0, 1000.0] if big else [0.5, 1.5, 10.0]
    ops, have, have_edges, pending = [], [], [], list(labs)
    if backend == "sqlite" and len(labs) >= 4 and draw(st.integers(0, 2)) == 0:
        # two parallel roads (so that connect_parallelroads really links edges): nodes on two lines half a unit apart
        half = len(labs) // 2
        p0 = point()
        step = (qr[0] * 1.0) if not latlon else 1e-3
        gap = (qr[0] * 0.5) if not latlon else 2e-4
        line1, line2 = labs[:half], labs[half:2 * half]
        # (slightly slanted: connect_parallelroads pairs edges whose bounding boxes intersect, which never happens for two
        # axis-parallel lines)
        batch = [[l, [p0[0] + i * gap, p0[1] + i * step]] for i, l in enumerate(line1)] + \
                [[l, [p0[0] + gap / 2 + i * gap, p0[1] + i * step]] for i, l in enumerate(line2)]
        ops.append(["add_nodes", batch])
        ebatch = [[a, b] for a, b in zip(line1, line1[1:])] + [[a, b] for a, b in zip(line2, line2[1:])]
        ops.append(["add_edges", ebatch, False])
        ops.append(["connect_parallelroads", qr[1]])
        have = line1 + line2
        have_edges = [list(e) for e in ebatch]
        pending = labs[2 * half:]
    nops = draw(st.integers(2, 10 if tier == "quick" else 16))
    for _ in range(nops):
        choices = []
        if pending:
            choices += ["add_node", "add_nodes"]
        if len(have) >= 2:
            choices += ["add_edge", "add_edge", "add_edges"]
        if have:
            choices += ["reopen"]
        if backend == "sqlite":
            choices += ["reindex_nodes", "reindex_edges", "commit"]
        if have:
            choices += ["add_node_again"]
            if len(have_edges) >= 2:
                choices += ["connect_parallelroads", "connect_parallelroads", "connect_parallelroads"]
        k = gen.pick(draw, choices)
        if k == "add_node":
            l = pending.pop(0)
            ops.append(["add_node", l, point(), draw(st.booleans()) and backend == "sqlite", draw(st.booleans()) and backend == "sqlite"])
            have.append(l)
        elif k == "add_node_again":
            ops.append(["add_node_again", gen.pick(draw, have), point()])
        elif k == "add_nodes":
            cnt = draw(st.integers(1, len(pending)))
            batch = [[pending.pop(0), point()] for _ in range(cnt)]
            ops.append(["add_nodes", batch])
            have += [b[0] for b in batch]
        elif k == "add_edge":
            a, b = gen.pick(draw, have), gen.pick(draw, have)
            if a == b:
                continue
            ops.append(["add_edge", a, b, draw(st.booleans()) and backend == "sqlite", draw(st.booleans()) and backend == "sqlite"])
            if [a, b] not in have_edges:
                have_edges.append([a, b])
        elif k == "add_edges":
            batch = []
            for _e in range(draw(st.integers(1, 4))):
                a, b = gen.pick(draw, have), gen.pick(draw, have)
                if a != b and [a, b] not in have_edges and [a, b] not in batch:
                    batch.append([a, b])
            if not batch:
                continue
            ops.append(["add_edges", batch, draw(st.booleans()) and backend == "sqlite"])
            have_edges += batch
        elif k == "connect_parallelroads":
            ops.append([k, gen.pick(draw, qr)])
        else:
            ops.append([k])
    ops.append(["reopen"])
    queries = []
    for _ in range(3):
        queries.append([point(), gen.pick(draw, qr)])
    case = {"backend": backend, "latlon": latlon, "ops": ops, "queries": queries}
    if backend == "sqlite" and draw(st.integers(0, 2)) == 0:
        case["other_process"] = True  # every reopen is also done by a second interpreter with another hash seed
    if draw(st.integers(0, 3)) == 0:
        case["crs_xy"] = draw(st.sampled_from(["EPSG:31370", "EPSG:3857"]))
    if draw(st.integers(0, 5)) == 0:
        case["crs_lonlat"] = "EPSG:4258"
    if backend == "sqlite" and draw(st.integers(0, 3)) == 0:
        pk_ = {}
        if draw(st.booleans()):
            pk_["crs_xy"] = "EPSG:32631"
        case["prior"] = {"latlon": draw(st.sampled_from([not latlon, not latlon, latlon])), "kw": pk_,
                         "nodes": [[900 + i, point()] for i in range(draw(st.integers(0, 3)))]}
    if backend == "pickle" and len(have_edges) >= 2 and draw(st.booleans()):
        case["linked"] = [[have_edges[0], have_edges[1]]]
        # the linked edges must exist whenever neighbours are queried: keep only the final reopen
        case["ops"] = [o for o in ops[:-1] if o[0] != "reopen"] + [["reopen"]]
    return case


def strategy(tier):
    return _case(tier)
