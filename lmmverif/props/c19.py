"""C19 — Turning on debug logging does not change results.

Oracle: differential — the same case (single call or history) with the package logger at ERROR and at DEBUG
(NullHandler or StreamHandler on a StringIO); level and handlers are restored afterwards."""
import io
import logging

from hypothesis import strategies as st

from .. import base, gen
from ..base import Violation
from . import common

RULE = ("cases: (planar graph, trace, any configuration, optional history, handler kind null/stream); non-trivial = some candidate "
        "was stopped by a cut-off during the DEBUG run (stopped entries exist in the lattice: the DEBUG-only materialisation path was "
        "entered); distinct = case JSON")
ASSUMPTIONS = ["planar metric, InMemMap; graphs <= 12 nodes, traces <= 12 points", "results compared exactly (states, index, path keys, probabilities)"]
TOLERANCES = {"comparison": "exact"}
BUDGET = {"quick": {"shards": 8, "examples": 700}, "thorough": {"shards": 16, "examples": 7000}}
FUZZ = {"thorough": {"runs": 15000, "seed_inputs": 16, "max_len": 4096,
                     "include": ("leuvenmapmatching.matcher", "leuvenmapmatching.util", "leuvenmapmatching.map")}}


def run(case):
    out = []

    def after(matcher, op, states, idx, cur):
        if states is None and idx is None:
            return
        c = base.canon(matcher, states, idx)
        lb = matcher.lattice_best or []
        c["lps"] = [float(m.logprob) for m in lb]
        c["raw_states"] = repr(states)
        out.append(c)

    matcher, res, cur, applied = common.apply_history(case, after=after)
    stopped = sum(1 for _i, _ne, _k, m in base.lattice_entries(matcher) if m.stop) if matcher.lattice else 0
    return out, stopped, applied


def check_case(case, ctx):
    lg = logging.getLogger(base.LOGGER_NAME)
    old_level, old_handlers, old_prop = lg.level, list(lg.handlers), lg.propagate
    try:
        lg.setLevel(logging.ERROR)
        quiet, _, _ = run(case)
        h = logging.NullHandler() if case["handler"] == "null" else logging.StreamHandler(io.StringIO())
        lg.addHandler(h)
        lg.propagate = False
        lg.setLevel(logging.DEBUG)
        try:
            with base.quiet():
                loud, stopped, applied = run(case)
        except Violation as v:
            raise Violation("debug-" + v.clause, "at DEBUG level: " + v.msg)
        finally:
            lg.removeHandler(h)
    finally:
        lg.setLevel(old_level)
        lg.handlers[:] = old_handlers
        lg.propagate = old_prop
    if len(quiet) != len(loud):
        raise Violation("history", f"{len(quiet)} results at ERROR level, {len(loud)} at DEBUG level")
    for step, (a, b) in enumerate(zip(quiet, loud)):
        for k in ("raw_states", "idx", "keys", "lps"):
            if a[k] != b[k]:
                raise Violation(f"differs.{k}", f"operation {step}: {k} is {a[k]!r} at the default level and {b[k]!r} at DEBUG")
    classes = ["family:" + case["config"]["family"], "handler:" + case["handler"], "ops:%d" % min(len(applied), 3)]
    if stopped:
        classes.append("stopped-entries-materialised")
    if quiet and not quiet[-1]["n_emit"]:
        classes.append("empty-result")
    ctx.record(case, stopped > 0, classes, quiet[-1] if quiet else None)


@st.composite
def _detour(draw):
    """One-way detour into a dead end: A -> N -> D with the second observation next to D and N *beyond* it, node-and-edge
    states, non-emitting states with a wider noise than emitting ones and a minimum normalised probability, so that N is
    admissible as a non-emitting state while its own emitting candidate is cut off (a stopped entry that only exists at DEBUG)."""
    nx = draw(st.sampled_from([3.0, 4.0, 5.0]))
    ny = draw(st.sampled_from([2.0, 3.0, 4.0]))
    dy = draw(st.sampled_from([-0.3, 0.2, 0.5]))
    labs = draw(st.sampled_from([["A", "N", "D"], [1, 2, 3], [3, 1, 2]]))
    a, n, d = labs
    graph = [[a, [0.0, 0.0], [n]], [n, [nx, ny], [d]], [d, [nx, dy], []]]
    if draw(st.booleans()):
        graph.append([draw(st.sampled_from(["Z", 9])) if isinstance(a, str) else 9, [nx + 2.0, dy], []])
        graph[2][2].append(graph[3][0])
    trace = [[0.0, 0.0], [nx, 0.0]]
    if draw(st.booleans()):
        trace.append([nx + 1.0, 0.0])
    cfg = {"family": draw(st.sampled_from(["simple_n", "simple_n", "distance"])),
           "obs_noise": draw(st.sampled_from([0.5, 1.0])), "obs_noise_ne": draw(st.sampled_from([2.0, 5.0, 10.0])),
           "max_dist": 10.0, "max_dist_init": 10.0, "min_prob_norm": draw(st.sampled_from([0.3, 0.5, 0.7])),
           "non_emitting_states": True, "max_lattice_width": None, "avoid_goingback": draw(st.booleans())}
    if cfg["family"] == "distance":
        cfg["only_edges"] = False
    return {"graph": graph, "trace": trace, "config": cfg, "gen": "detour", "ops": [["match", len(trace)]],
            "handler": draw(st.sampled_from(["null", "stream"])), "unique": draw(st.booleans())}


def strategy(tier):
    @st.composite
    def _s(draw):
        if draw(st.integers(0, 7)) == 0:
            return draw(_detour())
        case = draw(common.mixed_case(tier, ne_share=2,
                                      trace_kw={"kinds": ["walk", "sparse", "outlier", "outlier", "exact", "random"]}))
        cfg = case["config"]
        if draw(st.booleans()):
            cfg["max_dist"] = draw(st.sampled_from([0.3, 0.5, 1.0, 2.0]))
            cfg["min_prob_norm"] = draw(st.sampled_from([None, 0.1, 0.5]))
        if draw(st.integers(0, 3)) == 0:
            case["ops"] = draw(common.history_ops(len(case["trace"])))
        else:
            case["ops"] = [["match", len(case["trace"])]]
        case["handler"] = draw(st.sampled_from(["null", "stream"]))
        case["unique"] = draw(st.booleans())
        return case
    return _s()
