"""C19 — Turning on debug logging does not change results.

Oracle: differential — the same case (single call or history) with the package logger at ERROR and at DEBUG
(NullHandler or StreamHandler on a StringIO); level and handlers are restored afterwards."""
import io
import logging

from hypothesis import strategies as st

from .. import base, gen
from ..base import Violation
from . import common

RULE = ("cases: (planar graph, trace, any configuration, optional history, handler kind null/stream); non-trivial = some candidate "
        "was stopped by a cut-off during the DEBUG run (stopped entries exist in the lattice: the DEBUG-only materialisation path was "
        "entered); distinct = case JSON")
ASSUMPTIONS = ["planar metric, InMemMap; graphs <= 12 nodes, traces <= 12 points", "results compared exactly (states, index, path keys, probabilities)"]
TOLERANCES = {"comparison": "exact"}
BUDGET = {"quick": {"shards": 8, "examples": 700}, "thorough": {"shards": 16, "examples": 7000}}
FUZZ = {"thorough": {"runs": 15000, "seed_inputs": 16, "max_len": 4096,
                     "include": ("leuvenmapmatching.matcher", "leuvenmapmatching.util", "leuvenmapmatching.map")}}


def run(case):
    out = []

    def after(matcher, op, states, idx, cur):
        if states is None and idx is None:
            return
        c = base.canon(matcher, states, idx)
        lb = matcher.lattice_best or []
        c["lps"] = [float(m.logprob) for m in lb]
        c["raw_states"] = repr(states)
        out.append(c)

    matcher, res, cur, applied = common.apply_history(case, after=after)
    stopped = sum(1 for _i, _ne, _k, m in base.lattice_entries(matcher) if m.stop) if matcher.lattice else 0
    return out, stopped, applied


def check_case(case, ctx):
    lg = logging.getLogger(base.LOGGER_NAME)
    old_level, old_handlers, old_prop = lg.level, list(lg.handlers), lg.propagate
    try:
        lg.setLevel(logging.ERROR)
        quiet, _, _ = run(case)
        h = logging.NullHandler() if case["handler"] == "null" else logging.StreamHandler(io.StringIO())
        lg.addHandler(h)
        lg.propagate = False
        lg.setLevel(logging.DEBUG)
        try:
            with base.quiet():
                loud, stopped, applied = run(case)
        except Violation as v:
            raise Violation("debug-" + v.clause, "at DEBUG level: " + v.msg)
        finally:
            lg.removeHandler(h)
    finally:
        lg.setLevel(old_level)
        lg.handlers[:] = old_handlers
        lg.propagate = old_prop
    if len(quiet) != len(loud):
        raise Violation("history", f"{len(quiet)} results at ERROR level, {len(loud)} at DEBUG level")
    for step, (a, b) in enumerate(zip(quiet, loud)):
        for k in ("raw_states", "idx", "keys", "lps"):
            if a[k] != b[k]:
                raise Violation(f"differs.{k}", f"operation {step}: {k} is {a[k]!r} at the default level and {b[k]!r} at DEBUG")
    classes = ["family:" + case["config"]["family"], "handler:" + case["handler"], "ops:%d" % min(len(applied), 3)]
    if stopped:
        classes.append("stopped-entries-materialised")
    if quiet and not quiet[-1]["n_emit"]:
        classes.append("empty-result")
    ctx.record(case, stopped > 0, classes, quiet[-1] if quiet else None)


def strategy(tier):
    @st.composite
    def _s(draw):
        case = draw(common.mixed_case(tier, ne_share=2,
                                      trace_kw={"kinds": ["walk", "sparse", "outlier", "outlier", "exact", "random"]}))
        cfg = case["config"]
        if draw(st.booleans()):
            cfg["max_dist"] = draw(st.sampled_from([0.3, 0.5, 1.0, 2.0]))
            cfg["min_prob_norm"] = draw(st.sampled_from([None, 0.1, 0.5]))
        if draw(st.integers(0, 3)) == 0:
            case["ops"] = draw(common.history_ops(len(case["trace"])))
        else:
            case["ops"] = [["match", len(case["trace"])]]
        case["handler"] = draw(st.sampled_from(["null", "stream"]))
        case["unique"] = draw(st.booleans())
        return case
    return _s()
