"""C10 — Matching is deterministic.

Oracles: (1) process independence: every generated case is matched by 5 persistent worker processes started with different
PYTHONHASHSEED values; the canonical results (index, path keys, states, probability) must be identical;
(2) order independence: in-process, the same case with node order and every neighbour list permuted must give the same index and
probability (the path may differ only among equally probable alternatives);
(3) object reuse: a matcher that matched a different trace before must give exactly the result of a fresh matcher;
(4) a map object that was queried and matched on while it was being built (add_node / add_edge) must behave like the same map built
without those queries."""
import atexit
import json
import os
import subprocess
import sys

from hypothesis import strategies as st

from .. import audit, base, gen
from ..base import Violation, HarnessError
from . import common

RULE = ("cases: (planar graph with string or int labels, trace, any configuration, a permutation of the node order and of every "
        "neighbour list); cases biased to early stops with non-emitting states and to exact ties (lattice maps, observations "
        "exactly on nodes / edge mid points; star maps with mirror-image spokes and a hub that may list itself); non-trivial = non-empty result and some column of the lattice holds >= 2 candidates; "
        "distinct = case JSON")
ASSUMPTIONS = ["5 worker processes with PYTHONHASHSEED in {0, 1, 42, 4242, 1 + VERIF_SEED mod (2^32-1)} (never 'random', so a run is a "
               "function of the seed)", "process independence is compared strictly (no tie exception); order independence on index and "
               "probability (1e-9), path only when the probabilities differ by more than 1e-12 relative"]
TOLERANCES = {"across_processes": "exact", "order_logprob": 1e-9}
BUDGET = {"quick": {"shards": 4, "examples": 550}, "thorough": {"shards": 6, "examples": 8000}}

_workers = []


def hash_seeds():
    vs = int(os.environ.get("VERIF_SEED", "1") or "1")
    return ["0", "1", "42", "4242", str(1 + vs % (2 ** 32 - 1))]


def workers():
    if _workers:
        return _workers
    for hs in hash_seeds():
        env = dict(os.environ, PYTHONHASHSEED=hs, PYTHONWARNINGS="ignore")
        env["PYTHONPATH"] = base.VERIF + os.pathsep + env.get("PYTHONPATH", "")
        p = subprocess.Popen([sys.executable, "-m", "lmmverif.worker"], cwd=base.VERIF, env=env, stdin=subprocess.PIPE,
                             stdout=subprocess.PIPE, text=True, bufsize=1)
        line = p.stdout.readline()
        if not line or not json.loads(line).get("ready"):
            raise HarnessError(f"worker with PYTHONHASHSEED={hs} did not start")
        _workers.append((hs, p))
    atexit.register(stop_workers)
    return _workers


def stop_workers():
    for _hs, p in _workers:
        try:
            p.stdin.close()
            p.wait(timeout=5)
        except Exception:  # noqa
            p.kill()
    _workers.clear()


def ask_all(case):
    msg = base.canon_json(case) + "\n"
    ws = workers()
    for _hs, p in ws:
        p.stdin.write(msg)
        p.stdin.flush()
    out = []
    for hs, p in ws:
        line = p.stdout.readline()
        if not line:
            raise HarnessError(f"worker with PYTHONHASHSEED={hs} died")
        out.append((hs, json.loads(line)))
    return out


def permuted(case):
    g = case["graph"]
    order = case["perm"]["nodes"]
    out = []
    for i in order:
        lab, loc, nbrs = g[i]
        k = case["perm"]["nbr_rot"][i] % max(1, len(nbrs))
        nb = list(nbrs[k:]) + list(nbrs[:k])
        if case["perm"]["nbr_rev"][i]:
            nb.reverse()
        out.append([lab, loc, nb])
    return out


def check_case(case, ctx):
    # (1) across processes
    answers = ask_all({k: v for k, v in case.items() if k not in ("perm", "decoy")})
    ref_hs, ref = answers[0]
    for hs, a in answers[1:]:
        if a != ref:
            what = "raised" if ("raised" in a or "raised" in ref) else (
                "index" if a.get("idx") != ref.get("idx") else ("probability" if a.get("lp") != ref.get("lp") else "path"))
            raise Violation(f"process.{what}", f"PYTHONHASHSEED={ref_hs} gives {ref}, PYTHONHASHSEED={hs} gives {a}")
    if "raised" in ref:
        raise Violation("raised:" + ref["raised"], ref.get("msg", ""))
    # (2) order of nodes and neighbours
    fresh = {k: v for k, v in case.items() if k != "decoy"}
    m1, s1, i1 = common.run_match(fresh)
    c1 = base.canon(m1, s1, i1)
    m2 = common.build(case, graph=permuted(case))
    s2, i2 = base.pkg(m2.match, base.to_path(case["trace"]), unique=case.get("unique", False))
    c2 = base.canon(m2, s2, i2)
    classes = ["family:" + case["config"]["family"], "labels:" + type(case["graph"][0][0]).__name__]
    if c1["idx"] != c2["idx"] or c1["n_emit"] != c2["n_emit"]:
        raise Violation("order.index", f"listing order changes the matched index: {c1['idx']} vs {c2['idx']}")
    if not base.close(c1["lp"], c2["lp"], 1e-9):
        trailing = (c1["keys"] and c1["keys"][-1][-1] != 0) or (c2["keys"] and c2["keys"][-1][-1] != 0)
        if trailing and case["config"].get("non_emitting_states") and ctx.known(
                "KF-NE-ORDER", "after an early stop the best path ends in a run of non-emitting states whose content depends on the order "
                               "in which neighbours are listed"):
            ctx.record(case, False, classes + ["excluded:KF-NE-ORDER"])
            return
        if case["config"].get("non_emitting_states"):
            why = audit.ne_revisit_tie(m1, m2)
            if why and ctx.known("KF-NE-ORDER", "the no-revisit filter of a non-emitting run follows the one chain kept among equally "
                                                "probable predecessors; which one is kept depends on the listing order"):
                ctx.record(case, False, classes + ["excluded:KF-NE-ORDER", "KF-NE-ORDER:revisit-filter-tie"])
                return
        raise Violation("order.probability", f"listing order changes the best log-probability: {c1['lp']} vs {c2['lp']}")
    if c1["keys"] != c2["keys"]:
        classes.append("order:tie-different-path")
    # (3) reuse of the matcher object: "the same map, trace and configuration" also when the matcher matched another trace before
    if case.get("decoy"):
        m3 = common.build(case)
        common.run_decoy(case, m3)
        s3, i3 = base.pkg(m3.match, base.to_path(case["trace"]), unique=case.get("unique", False), clause="reused-raised")
        c3 = base.canon(m3, s3, i3)
        if c3 != c1:
            what = "index" if c3["idx"] != c1["idx"] else ("probability" if c3["lp"] != c1["lp"] else "path")
            raise Violation(f"reuse.{what}", f"fresh matcher gives {c1}, a matcher that matched another trace before gives {c3}")
        classes.append("reused-matcher")
    # (4) the map object was built step by step and queried in between: same content => same result
    if case.get("incremental_map"):
        def build_steps(interleave):
            from leuvenmapmatching.map.inmem import InMemMap
            g = case["graph"]
            k = max(1, min(len(g) - 1, case["incremental_map"]))
            first = {n[0] for n in g[:k]}
            mp = InMemMap("m", graph={lab: ((loc[0], loc[1]), [x for x in nb if x in first]) for lab, loc, nb in g[:k]},
                          use_latlon=False, use_rtree=False)
            if interleave:
                mt0 = base.mk_matcher(mp, case["config"])
                try:
                    mt0.match(base.to_path(case.get("decoy") or case["trace"]))
                    mp.edges_closeto(tuple(case["trace"][0][:2]), max_dist=1.0)
                    mp.nodes_closeto(tuple(case["trace"][0][:2]), max_dist=1.0)
                    for lab in list(first)[:3]:
                        mp.nodes_nbrto(lab)
                except Exception:  # noqa  (whatever the small map answers is irrelevant here)
                    pass
            for lab, loc, nb in g[k:]:
                mp.add_node(lab, (loc[0], loc[1]))
            for lab, loc, nb in g:
                for x in nb:
                    if not (lab in first and x in first):
                        mp.add_edge(lab, x)
            return mp
        res = []
        for inter in (False, True):
            mt = base.mk_matcher(base.pkg(build_steps, inter, clause="map-build-raised"), case["config"])
            st4, i4 = base.pkg(mt.match, base.to_path(case["trace"]), unique=case.get("unique", False))
            res.append(base.canon(mt, st4, i4))
        if res[0] != res[1]:
            raise Violation("map-reuse", f"map built step by step gives {res[0]}; the same steps with queries and a match in between give {res[1]}")
        classes.append("incrementally-built-map")
    n = len(case["trace"])
    multi = any(len(d) >= 2 for col in m1.lattice.values() for d in col.o) if m1.lattice else False
    if c1["n_emit"] and c1["idx"] < n - 1:
        classes.append("early-stop")
        if len(m1.lattice[c1["idx"]].o) > 1:
            classes.append("early-stop-with-ne-layers")
    if c1["n_emit"]:
        col = [float(m.logprob) for m in m1.lattice[c1["idx"]].values(0) if not m.stop]
        if len(col) >= 2 and sorted(col)[-1] == sorted(col)[-2]:
            classes.append("exact-tie-in-final-column")
    ctx.record(case, bool(c1["n_emit"]) and multi, classes, c1)


def strategy(tier):
    @st.composite
    def _s(draw):
        tie = draw(st.booleans())
        if draw(st.integers(0, 5)) == 0:
            case = draw(gen.star_case() if draw(st.booleans()) else gen.fork_case())
            n = len(case["graph"])
            case["perm"] = {"nodes": gen.shuffled(draw, range(n)),
                            "nbr_rot": [draw(st.integers(0, 3)) for _ in range(n)],
                            "nbr_rev": [draw(st.booleans()) for _ in range(n)]}
            case["unique"] = False
            return case
        case = draw(common.mixed_case(tier, ne_share=3,
                                      graph_kw={"families": ["grid", "grid", "chain"], "label_kinds": ("str", "str", "int"), "self_listed": 4} if tie else
                                      {"label_kinds": ("str", "int")},
                                      trace_kw={"kinds": ["exact", "exact", "outlier", "repeat"]} if tie else
                                      {"kinds": ["walk", "sparse", "outlier", "outlier", "random"]}))
        n = len(case["graph"])
        case["perm"] = {"nodes": gen.shuffled(draw, range(n)),
                        "nbr_rot": [draw(st.integers(0, 3)) for _ in range(n)],
                        "nbr_rev": [draw(st.booleans()) for _ in range(n)]}
        case["unique"] = draw(st.booleans())
        case = draw(common.maybe_decoy(case, share=4))
        if len(case["graph"]) >= 3 and not case.get("linked") and draw(st.integers(0, 4)) == 0:
            case["incremental_map"] = draw(st.integers(1, len(case["graph"]) - 1))
        return case
    return _s()
