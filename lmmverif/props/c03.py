"""C03 — Result is aligned with the observations and the last index is truthful.

Oracle: validity predicate over (states, index, best path, lattice) + independent start-candidate scan."""
from hypothesis import strategies as st

from .. import base, gen, hmmref, audit
from ..base import Violation
from . import common

RULE = ("cases: (planar graph, trace incl. length 1 / outliers at index 0, 1, middle, last / gaps, any configuration, unique flag); "
        "non-trivial = non-empty result; classes: where the match stopped, unique, non-emitting state on the path; distinct = case JSON")
ASSUMPTIONS = ["planar metric, InMemMap; graphs <= 12 nodes, traces <= 12 points; plus long roads (10-24 nodes, >= 3 non-emitting states on the path) and one case in 200 with 30-40 observations and > 100 non-emitting states on the path; matcher.non_emitting_states_maxnb varied",
               "a trailing run of non-emitting states after the last emitting state (documented behaviour after an early stop) is accepted",
               "the 'empty iff no admissible start' clause uses an independent full scan; cases where open finding F1 can hide a start "
               "candidate are excluded from that clause only, and counted"]
TOLERANCES = {"threshold_band": hmmref.BAND}
BUDGET = {"quick": {"shards": 8, "examples": 1200}, "thorough": {"shards": 16, "examples": 12000}}
FUZZ = {"thorough": {"runs": 15000, "seed_inputs": 16, "max_len": 4096,
                     "include": ("leuvenmapmatching.matcher", "leuvenmapmatching.util", "leuvenmapmatching.map")}}


def check_case(case, ctx):
    if case.get("ops"):
        # the pair returned by match(expand=True) / increase_max_lattice_width has the same meaning: same predicate after every call
        box = {}

        def after(matcher, op, states, idx, cur):
            if states is not None or idx is not None:
                box["where"] = audit.audit_alignment(matcher, case["trace"][:cur], states, idx, case.get("unique", False))
                box["res"] = (states, idx)

        matcher, res, cur, applied = common.apply_history(case, after=after)
        lb = matcher.lattice_best or []
        classes = ["where:" + box.get("where", "?"), "family:" + case["config"]["family"], "history:%d" % min(len(applied), 3)]
        if any(m.obs_ne for m in lb):
            classes.append("ne-in-path")
        ctx.record(case, bool(res and res[0]), classes, base.canon(matcher, res[0], res[1]) if res else None)
        return
    matcher, states, idx = common.run_match(case)
    where = audit.audit_alignment(matcher, case["trace"], states, idx, case.get("unique", False))
    cfg = case["config"]
    classes = ["where:" + where, "family:" + cfg["family"], "unique:%s" % case.get("unique", False), "len:%d" % min(len(case["trace"]), 3)]
    # empty result <=> no admissible start candidate (independent scan)
    model = hmmref.Model(case["graph"], cfg)
    starts = model.start_records(tuple(case["trace"][0][:2]))
    if cfg["family"] == "nk" and cfg.get("min_prob_norm"):
        classes.append("nk:min_prob_norm-start-not-modelled")
    elif not model.ambiguous:
        if states == [] and starts:
            if common.f1_affected(case) and ctx.known("F1", "InMemMap.edges_closeto drops start candidates whose start node lies outside the box"):
                classes.append("excluded:F1")
            else:
                raise Violation("empty.iff", f"empty result although {len(starts)} start candidates are admissible, e.g. {starts[0]['s']}")
        if states and not starts:
            raise Violation("empty.iff", f"result {states[:3]}... although no start candidate is admissible for the first observation")
    else:
        classes.append("ambiguous-threshold")
    lb = matcher.lattice_best or []
    if any(m.obs_ne for m in lb):
        classes.append("ne-in-path")
        if lb[-1].obs_ne:
            classes.append("trailing-ne-run")
    ctx.record(case, bool(states), classes, base.canon(matcher, states, idx))


def strategy(tier):
    sz = gen.sizes(tier)

    @st.composite
    def _s(draw):
        case = draw(common.mixed_case(tier, trace_kw={"kinds": ["walk", "outlier", "outlier", "sparse", "exact", "repeat", "random"]}))
        case["unique"] = draw(st.booleans())
        case = draw(common.maybe_decoy(case))
        if draw(st.integers(0, 3)) == 0:
            case["ops"] = draw(common.history_ops(len(case["trace"])))
            if case["config"].get("max_lattice_width") is None:
                case["config"]["max_lattice_width"] = draw(st.sampled_from([1, 1, 2, 3]))
        return case
    return _s()
