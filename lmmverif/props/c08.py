"""C08 — Incremental matching equals one-shot matching.

Oracle: differential — match(prefix), match(longer, expand=True)..., match(full, expand=True) on one matcher versus
match(full) on a fresh matcher."""
from hypothesis import strategies as st

from .. import base, gen
from ..base import Violation
from . import common

RULE = ("cases: (planar graph, trace of >= 2 points, any configuration incl. widths and non-emitting states, non-decreasing "
        "cut points 1-5, repeats allowed = continuation calls without a new observation); non-trivial = >= 2 calls and a non-empty result; classes: early stop, width, non-emitting state on the "
        "path, cut right after the matched prefix; distinct = case JSON")
ASSUMPTIONS = ["planar metric, InMemMap; graphs <= 12 nodes, traces <= 12 points",
               "a different best path is accepted only when both paths have the same probability (1e-12 relative: an exact tie)"]
TOLERANCES = {"logprob": 1e-9, "tie": 1e-12}
BUDGET = {"quick": {"shards": 8, "examples": 900}, "thorough": {"shards": 16, "examples": 9000}}
FUZZ = {"thorough": {"runs": 15000, "seed_inputs": 16, "max_len": 4096,
                     "include": ("leuvenmapmatching.matcher", "leuvenmapmatching.util", "leuvenmapmatching.map")}}


def check_case(case, ctx):
    path = base.to_path(case["trace"])
    n = len(path)
    one = common.build(case)
    s1, i1 = base.pkg(one.match, path, unique=case.get("unique", False))
    c1 = base.canon(one, s1, i1)
    inc = common.build(case)
    common.run_decoy(case, inc)  # the matcher that is fed incrementally may have been used for another trace before
    cuts = [c for c in case["cuts"] if 0 < c <= n]
    res = None
    for j, c in enumerate(cuts + [n]):
        if j == 0:
            res = base.pkg(inc.match, path[:c], unique=case.get("unique", False), clause="incremental-raised")
        else:
            res = base.pkg(inc.match, path[:c], unique=case.get("unique", False), expand=True, clause="incremental-raised")
    c2 = base.canon(inc, res[0], res[1])
    classes = ["family:" + case["config"]["family"], "cuts:%d" % len(cuts)]
    if c1["idx"] != c2["idx"] or c1["n_emit"] != c2["n_emit"]:
        raise Violation("index", f"one-shot matches up to index {c1['idx']} ({c1['n_emit']} observations), incremental (cuts {cuts}) up to "
                                 f"{c2['idx']} ({c2['n_emit']})")
    if not base.close(c1["lp"], c2["lp"], 1e-9):
        raise Violation("probability", f"one-shot best log-probability {c1['lp']}, incremental (cuts {cuts}) {c2['lp']}")
    if c1["keys"] != c2["keys"] or c1["states"] != c2["states"]:
        if c1["lp"] is not None and base.close(c1["lp"], c2["lp"], 1e-12):
            classes.append("tie-different-path")
        else:
            raise Violation("path", f"one-shot path {c1['keys']}, incremental path {c2['keys']}")
    if c1["idx"] < n - 1:
        classes.append("early-stop")
        if any(c == c1["idx"] + 1 for c in cuts):
            classes.append("cut-at-stop")
    if len(set(cuts + [n])) < len(cuts) + 1:
        classes.append("repeated-cut")
    if case["config"].get("max_lattice_width"):
        classes.append("width")
    if any(k[-1] != 0 for k in c1["keys"]):
        classes.append("ne-in-path")
    ctx.record(case, len(cuts) >= 1 and c1["n_emit"] > 0, classes, c1)


def strategy(tier):
    @st.composite
    def _s(draw):
        case = draw(common.mixed_case(tier, ne_share=3, min_len=2,
                                      trace_kw={"kinds": ["walk", "walk", "sparse", "outlier", "outlier", "exact", "repeat", "random"]}))
        n = len(case["trace"])
        cuts = sorted(draw(st.lists(st.integers(1, max(1, n - 1)), min_size=1, max_size=4)))
        if draw(st.booleans()):
            cuts = sorted(set(cuts))
        elif draw(st.booleans()):
            cuts.append(n)  # the whole trace is also handed over twice
        # (a repeated cut point is a continuation call that brings no new observation - "any number of times")
        case["cuts"] = cuts
        case["unique"] = draw(st.booleans())
        case = draw(common.maybe_decoy(case, share=3))
        return case
    return _s()
