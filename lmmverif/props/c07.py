"""C07 — Width pruning is sound and widening is monotone.

Oracles: (1) per-column snapshot taken through the public tqdm= callable of match(): at the moment a column is about to be
expanded, the expanded set must be a top-k prefix by probability; (2) differential against a fresh unpruned run;
(3) monotonicity along an increasing sequence of widths on one matcher."""
from hypothesis import strategies as st

from .. import base, gen
from ..base import Violation
from . import common

RULE = ("cases: (planar graph, trace, any configuration, first width W>=1 and an increasing list of further widths applied with "
        "increase_max_lattice_width); non-trivial = some snapshot had more live candidates than the width (pruning really cut); "
        "distinct = case JSON")
ASSUMPTIONS = ["planar metric, InMemMap; graphs <= 12 nodes, traces <= 12 points",
               "snapshot predicate on the emitting layer of each column; 'live' = not stopped; expanded = delayed <= expand_now",
               "open findings recognised by signature + root-cause predicate only: KF-C07-NE (non-emitting states on: pruned-better / "
               "pruned-longer / wide-differs with equal prefix), KF-C07-REACT (non-emitting on, widened run shorter than unpruned and a "
               "postponed entry left in a non-emitting layer), KF-C07-AG (avoid_goingback on, non-emitting off, pruned-better, and the "
               "same case with avoid_goingback off satisfies the clause)",
               "ties: the upper bound counts values within 1e-9 relative as tied (repair F16); joint expansion is demanded for exactly equal values only"]
TOLERANCES = {"logprob": 1e-9}
BUDGET = {"quick": {"shards": 8, "examples": 800}, "thorough": {"shards": 16, "examples": 8000}}


class Tap:
    """tqdm-compatible wrapper: snapshots the column that is about to be expanded."""

    def __init__(self, matcher, log):
        self.matcher, self.log = matcher, log

    def __call__(self, it):
        for obs_idx in it:
            mt = self.matcher
            col = [m for m in mt.lattice[obs_idx - 1].values(0) if not m.stop]
            self.log.append((obs_idx - 1, mt.expand_now, mt.max_lattice_width,
                             [(list(m.key), float(m.logprob), m.delayed) for m in col]))
            yield obs_idx
FUZZ = {"thorough": {"runs": 15000, "seed_inputs": 16, "max_len": 4096,
                     "include": ("leuvenmapmatching.matcher", "leuvenmapmatching.util", "leuvenmapmatching.map")}}


def allowed_with_ties(srt, W):
    """Upper bound on the number of expanded candidates: the W most probable plus ties with the W-th, where values that differ only
    by rounding (1e-9 relative, chained) count as ties. (Exactly equal values MUST be expanded together: see the *.tie clauses.)"""
    if W is None or len(srt) <= W:
        return len(srt)
    k, last = W, srt[W - 1]
    while k < len(srt) and (srt[k] == last or abs(srt[k] - last) <= 1e-12 + 1e-9 * abs(last)):
        last = srt[k]
        k += 1
    return k


def check_snapshot(snap):
    i, now, W, col = snap
    if not col:
        return False
    live = [c for c in col if c[2] <= now]
    post = [c for c in col if c[2] > now]
    if live and post and max(c[1] for c in post) > min(c[1] for c in live):
        worst = min(live, key=lambda c: c[1])
        best = max(post, key=lambda c: c[1])
        raise Violation("snapshot.order", f"column {i} (width {W}, round {now}): postponed candidate {best[0]} ({best[1]}) is more "
                                          f"probable than expanded candidate {worst[0]} ({worst[1]})")
    if live and post and max(c[1] for c in post) == min(c[1] for c in live):
        tie = max(post, key=lambda c: c[1])
        raise Violation("snapshot.tie", f"column {i} (width {W}, round {now}): candidate {tie[0]} is postponed although it is exactly as "
                                        f"probable ({tie[1]}) as an expanded one (exact ties must be expanded together)")
    srt = sorted((c[1] for c in col), reverse=True)
    allowed = allowed_with_ties(srt, W)
    if len(live) > allowed:
        raise Violation("snapshot.too-many", f"column {i} (width {W}, round {now}): {len(live)} candidates expanded, at most {allowed} allowed")
    need = len(col) if W is None else min(len(col), W)
    if len(live) < need:
        raise Violation("snapshot.too-few", f"column {i} (width {W}, round {now}): only {len(live)} of {len(col)} candidates expanded, "
                                            f"{need} most probable must be")
    return W is not None and len(col) > W


def check_layers(matcher, what):
    """Post-hoc form of the same predicate on every non-emitting layer (they are pruned by the same rule but never pass
    through the tqdm iterator): among the live entries of a layer, the set marked for expansion (delayed <= expand_now) must be an
    upper set by probability and must not exceed the width (plus ties). No lower bound: the pruning threshold inherited from the
    next observation may legitimately shrink it. Only evaluated after the fresh run (round 0): in later rounds a layer that is not
    re-processed keeps its marks of the earlier round, so 'delayed <= expand_now' no longer means 'was expanded' there."""
    W, now = matcher.max_lattice_width, matcher.expand_now
    cut = False
    for i, col in matcher.lattice.items():
        for depth in range(1, len(col.o)):
            ents = [m for m in col.o[depth].values() if not m.stop]
            if not ents:
                continue
            live = [m for m in ents if m.delayed <= now]
            post = [m for m in ents if m.delayed > now]
            if live and post:
                best = max(post, key=lambda m: m.logprob)
                worst = min(live, key=lambda m: m.logprob)
                if best.logprob > worst.logprob:
                    raise Violation("layer.order", f"{what}: column {i} depth {depth} (width {W}): postponed candidate {best.key} "
                                                   f"({best.logprob}) is more probable than expanded candidate {worst.key} ({worst.logprob})")
                if best.logprob == worst.logprob:
                    raise Violation("layer.tie", f"{what}: column {i} depth {depth} (width {W}): candidate {best.key} is postponed although "
                                                 f"it is exactly as probable ({best.logprob}) as the expanded candidate {worst.key} "
                                                 f"(exact ties must be treated alike, otherwise the result depends on listing order)")
            if W is not None and len(ents) > W:
                srt = sorted((m.logprob for m in ents), reverse=True)
                allowed = allowed_with_ties(srt, W)
                if len(live) > allowed:
                    raise Violation("layer.too-many", f"{what}: column {i} depth {depth}: {len(live)} candidates expanded, at most {allowed} "
                                                      f"(width {W} plus ties) allowed")
                cut = True
    return cut


def postponed_ne_entry(matcher):
    """Root cause of open finding KF-C07-REACT: a live entry in a non-emitting layer (depth >= 1) that pruning postponed at some
    point (delayed > 0; in an unpruned run every entry has delayed == 0). Expansion rounds only restart the non-emitting search
    from emitting entries scheduled for the current round, so such an entry never gets its turn."""
    for _i, col in matcher.lattice.items():
        for depth in range(1, len(col.o)):
            if any((not m.stop) and m.delayed > 0 for m in col.o[depth].values()):
                return True
    return False


def summary(matcher, res, n):
    states, idx = res
    lb = matcher.lattice_best or []
    k = sum(1 for m in lb if m.obs_ne == 0) if states else 0
    lp = base.best_emitting_lp(matcher, idx) if k else None
    return k, lp


def check_case(case, ctx):
    cfg = case["config"]
    path = base.to_path(case["trace"])
    n = len(path)
    ne = bool(cfg.get("non_emitting_states"))
    un = common.build(case, config=dict(cfg, max_lattice_width=None))
    r_un = summary(un, base.pkg(un.match, path), n)
    ncand = max((len(d) for col in un.lattice.values() for d in col.o), default=0)
    widths = case["widths"]
    log = []
    pr = common.build(case, config=dict(cfg, max_lattice_width=widths[0]))
    tap = Tap(pr, log)
    hist = []
    classes = ["family:" + cfg["family"], "ne:%s" % ne, "widths:%d" % len(widths)]

    def known_ag(w, what):
        """Open finding KF-C07-AG: avoid_goingback makes the transition model second order (the penalty depends on the predecessor's
        predecessor) while the lattice keeps one predecessor per state, so even the unpruned search is not optimal and a pruned run
        can find a more probable path. Root-cause predicate: avoid_goingback is on AND the very same case with avoid_goingback off
        satisfies the clause."""
        if not cfg.get("avoid_goingback") or ne:
            return False
        c0 = dict(cfg, avoid_goingback=False)
        un0 = common.build(case, config=dict(c0, max_lattice_width=None))
        r_un0 = summary(un0, base.pkg(un0.match, path), n)
        pr0 = common.build(case, config=dict(c0, max_lattice_width=widths[0]))
        r0 = summary(pr0, base.pkg(pr0.match, path), n)
        for ww in widths[1:widths.index(w) + 1] if w in widths else []:
            r0 = summary(pr0, base.pkg(pr0.increase_max_lattice_width, ww), n)
        holds = not (r0[0] > r_un0[0] or (r0[0] == r_un0[0] == n and r0[1] > r_un0[1] + 1e-9 * max(1.0, abs(r_un0[1]))))
        return holds and ctx.known("KF-C07-AG", "with avoid_goingback the transition model is second order, the unpruned search is not "
                                                "optimal and a pruned run can report a more probable complete match")

    def known():
        return ne and ctx.known("KF-C07-NE", "with non-emitting states the no-revisit filter makes a pruned / widened run keep a chain "
                                             "the unpruned run loses: it can be more probable than the unpruned run")

    def versus_unpruned(w, r, what):
        if r[0] > r_un[0]:
            if known():  # same root cause: the unpruned non-emitting search loses the good chain, here ending in an early stop
                classes.append("excluded:KF-C07-NE")
                return
            raise Violation("pruned-longer", f"{what} width {w} matches {r[0]} observations, the unpruned run {r_un[0]}")
        if r[0] == r_un[0] == n and r[1] > r_un[1] + 1e-9 * max(1.0, abs(r_un[1])):
            if known():
                classes.append("excluded:KF-C07-NE")
                return
            if known_ag(w, what):
                classes.append("excluded:KF-C07-AG")
                return
            raise Violation("pruned-better", f"{what} width {w}: complete match with log-probability {r[1]}, unpruned run {r_un[1]}")
        if w >= ncand and (r[0] != r_un[0] or (r[0] and not base.close(r[1], r_un[1], 1e-9))):
            if known() and r[0] == r_un[0]:
                classes.append("excluded:KF-C07-NE")
                return
            if (ne and what.startswith("after widening") and r[0] < r_un[0] and postponed_ne_entry(pr) and
                    ctx.known("KF-C07-REACT", "candidates postponed inside a non-emitting layer are never re-activated by "
                                              "increase_max_lattice_width: the widened run stays shorter than the unpruned run")):
                classes.append("excluded:KF-C07-REACT")
                return
            raise Violation("wide-differs", f"{what} width {w} >= {ncand} candidates: (matched, logprob) = {r}, unpruned run {r_un}")

    r = summary(pr, base.pkg(pr.match, path, tqdm=tap), n)
    hist.append((widths[0], r))
    layer_cut = check_layers(pr, f"fresh run with width {widths[0]}")
    versus_unpruned(widths[0], r, "fresh run with")
    for w in widths[1:]:
        r2 = summary(pr, base.pkg(pr.increase_max_lattice_width, w, tqdm=tap), n)
        prev_w, prev = hist[-1]
        if r2[0] < prev[0]:
            raise Violation("widen-shorter", f"raising the width {prev_w} -> {w} shortens the matched prefix {prev[0]} -> {r2[0]}")
        if r2[0] == prev[0] == n and r2[1] < prev[1] - 1e-9 * max(1.0, abs(prev[1])):
            raise Violation("widen-worse", f"raising the width {prev_w} -> {w} lowers the best log-probability {prev[1]} -> {r2[1]}")
        hist.append((w, r2))
        versus_unpruned(w, r2, "after widening to")
    cut = False
    for s in log:
        cut |= check_snapshot(s)
    if cut:
        classes.append("pruning-cut")
    if layer_cut:
        classes.append("pruning-cut-in-ne-layer")
    if r_un[0] < n:
        classes.append("early-stop")
    ctx.record(case, cut, sorted(set(classes)), {"unpruned": r_un, "history": hist, "candidates": ncand})


def strategy(tier):
    @st.composite
    def _s(draw):
        if draw(st.integers(0, 7)) == 0:
            case = draw(gen.fork_case())
        else:
            case = draw(common.mixed_case(tier, ne_share=3, min_len=2, config_kw={"width": None}))
        w0 = draw(st.integers(1, 4))
        widths = [w0]
        for _ in range(draw(st.integers(0, 3))):
            widths.append(widths[-1] + draw(st.integers(0, 3)))
        case["widths"] = widths
        return case
    return _s()
