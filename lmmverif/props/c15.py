"""C15 — Latitude-longitude matching agrees with planar matching.

Oracle: differential — a planar metre-scale case and the same case placed on the sphere (local equirectangular map
at a drawn origin) must give the same index and, within a small relative tolerance, the same probability."""
from hypothesis import strategies as st

from .. import base, gen
from ..base import Violation
from . import common

RULE = ("cases: (planar graph scaled to metres with extent <= 2 km, trace, emitting-only configuration without cut-offs, three "
        "families, avoid_goingback on/off, origin |lat| <= 60, any longitude); non-trivial = >= 2 observations matched and >= 2 "
        "distinct states on the path; distinct = case JSON")
ASSUMPTIONS = ["local equirectangular placement: distortion <= ~3e-3 relative at 60 deg / 1 km (measured), tolerance 1e-2 relative + 1e-3 absolute "
               "on the log-probability", "emitting-only, no cut-offs, no width (as the statement says)"]
TOLERANCES = {"logprob": "1e-2 relative + 1e-3 absolute + (distance family) propagated along-edge position noise of 0.1 m: "
                         "sum over steps of (0.4 |d_o - d_s| + 0.04) / (2 dist_noise^2)"}
BUDGET = {"quick": {"shards": 8, "examples": 800}, "thorough": {"shards": 16, "examples": 7000}}


def discontinuity(case):
    """The model is discontinuous in the relative position t of an observation on an edge in two places: node-and-edge matchers
    reject an edge state at (1e-8 from) an end point, and avoid_goingback penalises t decreasing between consecutive
    observations. The lat/lon t carries ~0.1 m of numerical noise (see C14) and the placement distorts by ~1e-3, so a case that
    sits within delta = 0.02 + 0.3 m / L of such a decision is not comparable and is skipped (counted)."""
    cfg = case["config"]
    node_mode = cfg["family"] == "simple_n"
    ag = bool(cfg.get("avoid_goingback"))
    if not node_mode and not ag:
        return None
    loc, _adj = gen.model_of(case["graph"])
    unit = case["unit"]
    tr = case["trace"]
    for a, b in base.graph_edges(case["graph"]):
        pa, pb = loc[a], loc[b]
        dx, dy = pb[0] - pa[0], pb[1] - pa[1]
        l2 = dx * dx + dy * dy
        if l2 == 0:
            return "zero-length-edge"
        delta = 0.02 + 0.3 / (unit * l2 ** 0.5)
        us = [((o[0] - pa[0]) * dx + (o[1] - pa[1]) * dy) / l2 for o in tr]
        if node_mode and any(abs(u) < delta or abs(u - 1.0) < delta for u in us):
            return "projection-at-edge-end"
        if ag:
            for (o1, u1), (o2, u2) in zip(zip(tr, us), zip(tr[1:], us[1:])):
                if o1[:2] == o2[:2]:
                    continue
                if (u1 >= 1 + delta and u2 >= 1 + delta) or (u1 <= -delta and u2 <= -delta):
                    continue
                c1, c2 = min(1.0, max(0.0, u1)), min(1.0, max(0.0, u2))
                if abs(c1 - c2) < delta or min(abs(u1), abs(u1 - 1), abs(u2), abs(u2 - 1)) < delta:
                    return "goingback-decision-at-equal-positions"
    return None


def check_case(case, ctx):
    unit, org = case["unit"], case["origin"]
    why = discontinuity(case)
    if why:
        ctx.record(case, False, ["family:" + case["config"]["family"], "skipped:" + why])
        return
    cfg = gen.scale_config(case["config"], unit)
    pg = gen.scale_graph(case["graph"], unit)
    pt = gen.scale_trace(case["trace"], unit)
    mp = base.mk_matcher(base.mk_inmem(pg, latlon=False), cfg)
    sp, ip = base.pkg(mp.match, base.to_path(pt))
    cp = base.canon(mp, sp, ip)
    lg = gen.place_graph(case["graph"], org, unit)
    lt = gen.place_trace(case["trace"], org, unit)
    ml = base.mk_matcher(base.mk_inmem(lg, latlon=True), cfg)
    sl, il = base.pkg(ml.match, base.to_path(lt), clause="latlon-raised")
    cl = base.canon(ml, sl, il)
    if cp["idx"] != cl["idx"] or cp["n_emit"] != cl["n_emit"]:
        raise Violation("index", f"planar run matches up to {cp['idx']} ({cp['n_emit']} observations), lat/lon run up to {cl['idx']} ({cl['n_emit']})")
    # C14 accepts ~0.1 m of numerical noise in the lat/lon position *along* an edge (distances to the edge are accurate to 1e-6 m).
    # A distance-based transition term -(d_o - d_s)^2 / (2 dist_noise^2) turns a position error delta into
    # (4 delta |d_o - d_s| + 4 delta^2) / (2 dist_noise^2); that propagated noise is added to the tolerance, per step of the planar
    # best path (nothing is added for the simple matchers, whose transition terms do not depend on positions).
    extra = 0.0
    if cfg["family"] == "distance" and mp.lattice_best:
        dn = cfg.get("dist_noise", cfg["obs_noise"])
        delta = 0.1
        for m in mp.lattice_best[1:]:
            extra += (4 * delta * abs(m.d_o - m.d_s) + 4 * delta * delta) / (2 * dn * dn)
    if cp["lp"] is not None:
        err = abs(cp["lp"] - cl["lp"]) / (1e-3 + 1e-2 * abs(cp["lp"]) + extra)
        ctx.extra["max_tolerance_fraction_used"] = max(ctx.extra.get("max_tolerance_fraction_used", 0.0), err)
    if cp["lp"] is not None and abs(cp["lp"] - cl["lp"]) > 1e-3 + 1e-2 * abs(cp["lp"]) + extra:
        raise Violation("probability", f"planar best log-probability {cp['lp']}, lat/lon {cl['lp']} (unit {unit} m at {org})")
    classes = ["family:" + cfg["family"], "lat-band:%d" % (10 * int(abs(org[0]) // 10)), "unit:%g" % unit]
    lons = [n[1][1] for n in lg]
    if max(lons) - min(lons) > 180:
        classes.append("straddles-antimeridian")
    if cp["keys"] != cl["keys"]:
        classes.append("different-path")
    ctx.record(case, cp["n_emit"] >= 2 and len({tuple(k[:-2]) for k in cp["keys"]}) >= 2, classes, {"planar": cp, "latlon_lp": cl["lp"]})


def strategy(tier):
    sz = gen.sizes(tier)

    @st.composite
    def _s(draw):
        # street scale: lattice / chain maps (edges >= 0.5 units), 20-400 m per unit => edges >= 10 m, noise >= 5 m
        case = draw(gen.match_case(max_nodes=sz["max_nodes"], max_len=sz["max_len"], min_len=2,
                                   graph_kw={"families": ["grid", "grid", "chain", "oneway", "twocomp"]},
                                   config_kw={"ne": False, "width": None, "cutoffs": False}))
        case["config"]["obs_noise"] = max(case["config"]["obs_noise"], 0.25)
        case["origin"] = draw(gen.origin())
        if draw(st.integers(0, 5)) == 0:
            # "any longitude": put the map on the antimeridian (no cut-offs, so the start query covers the whole globe)
            case["origin"][1] = draw(st.sampled_from([180.0, -180.0, 179.999, -179.999, 179.99]))
        case["unit"] = draw(st.sampled_from([20.0, 50.0, 100.0, 400.0]))
        return case
    return _s()
