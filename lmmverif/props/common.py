"""Helpers shared by the matcher-level property modules: running a case, operation histories."""
import math

from hypothesis import strategies as st

from .. import base, gen, hmmref
from ..base import Violation


def build(case, graph=None, config=None):
    m = base.mk_inmem(graph if graph is not None else case["graph"], linked=case.get("linked"))
    return base.mk_matcher(m, config if config is not None else case["config"])


def run_decoy(case, matcher):
    """A matcher object may be reused: when the case carries a 'decoy' trace it is matched first (a plain match() call, whose
    results are discarded); the following fresh match() of the real trace must not be influenced by it."""
    if case.get("decoy"):
        base.pkg(matcher.match, base.to_path(case["decoy"]), clause="decoy-raised")


def run_match(case, matcher=None, trace=None, **kw):
    if matcher is None:
        matcher = build(case)
        run_decoy(case, matcher)
    path = base.to_path(trace if trace is not None else case["trace"])
    states, idx = base.pkg(matcher.match, path, unique=case.get("unique", False), **kw)
    return matcher, states, idx


def f1_affected(case):
    """Open finding F1 can change the start candidates of this case (in-memory map, edge states, finite radius)."""
    model = hmmref.Model(case["graph"], case["config"])
    from .c01 import f1_affected as f
    return f(model, tuple(case["trace"][0][:2]))


def apply_history(case, after=None, tqdm=None):
    """Runs case['ops'] on one matcher. ops: ['match', k] first, then ['extend', k] | ['widen', w] | ['rematch'] |
    ['cwd', k, nb_obs, max_dist]. Operations whose documented preconditions do not hold at run time are skipped.
    `after(matcher, op, states, idx, cur_len)` is called after every applied operation."""
    matcher = build(case)
    run_decoy(case, matcher)
    path = base.to_path(case["trace"])
    unique = case.get("unique", False)
    cur = None
    applied = []
    res = None
    for op in case["ops"]:
        k = op[0]
        kw = {"tqdm": tqdm} if tqdm is not None else {}
        if k == "match":
            cur = max(1, min(op[1], len(path)))
            res = base.pkg(matcher.match, path[:cur], unique=unique, **kw)
        elif cur is None:
            continue
        elif k == "extend":
            if op[1] <= cur or op[1] > len(path):
                continue
            cur = op[1]
            res = base.pkg(matcher.match, path[:cur], unique=unique, expand=True, **kw)
        elif k == "rematch":
            res = base.pkg(matcher.match, path[:cur], unique=unique, expand=True, **kw)
        elif k == "widen":
            w0 = matcher.max_lattice_width
            if not w0 or op[1] < w0:
                continue  # increase_max_lattice_width is documented as *increasing* an existing width
            res = base.pkg(matcher.increase_max_lattice_width, op[1], unique=unique, **kw)
        elif k == "cwd":
            if matcher.early_stop_idx is None or not matcher.only_edges or not matcher.lattice_best:
                continue  # documented use: continue after an early stop, edge states
            md = op[3]
            if md is None and math.isinf(matcher.max_dist):
                continue
            base.pkg(matcher.continue_with_distance, k=op[1], nb_obs=op[2], max_dist=md)
            applied.append(list(op))
            if after:
                after(matcher, op, None, None, cur)
            res = base.pkg(matcher.match, path[:cur], unique=unique, expand=True, **kw)
            op = ["rematch-after-cwd"]
        else:
            raise base.HarnessError(f"unknown op {op}")
        applied.append(list(op))
        if after:
            after(matcher, op, res[0], res[1], cur)
    return matcher, res, cur, applied


@st.composite
def history_ops(draw, n_trace, with_cwd=False, max_ops=4):
    ops = [["match", draw(st.integers(1, n_trace))]]
    for _ in range(draw(st.integers(1, max_ops))):
        kinds = ["extend", "extend", "widen", "widen", "rematch"] + (["cwd"] if with_cwd else [])
        k = gen.pick(draw, kinds)
        if k == "extend":
            ops.append(["extend", draw(st.integers(1, n_trace))])
        elif k == "widen":
            ops.append(["widen", draw(st.integers(1, 8))])
        elif k == "rematch":
            ops.append(["rematch"])
        else:
            ops.append(["cwd", draw(st.integers(1, 3)), draw(st.integers(1, 3)), draw(st.sampled_from([None, 1.0, 3.0, 10.0]))])
    return ops


NE_GRAPHS = ["chain", "chain", "chain", "grid", "float", "oneway"]
NE_TRACES = ["sparse", "sparse", "sparse", "walk", "outlier", "exact", "repeat"]


@st.composite
def linked_pairs(draw, graph):
    edges = base.graph_edges(graph)
    out = []
    if len(edges) >= 2:
        for _ in range(draw(st.integers(1, 4))):
            a, b = gen.pick(draw, edges), gen.pick(draw, edges)
            if gen.chance(draw, 6):
                # prefer a "parallel road": an edge that shares no node with a
                far = [e for e in edges if not (set(e) & set(a))]
                if far:
                    b = gen.pick(draw, far)
            if a != b and [list(a), list(b)] not in out:
                out.append([list(a), list(b)])
                if draw(st.booleans()):
                    out.append([list(b), list(a)])
    return out


@st.composite
def mixed_case(draw, tier, ne_share=3, families=base.FAMILIES4, config_kw=None, graph_kw=None, trace_kw=None,
               min_len=1):
    """General case, with ~ne_share/10 of the cases built so that non-emitting states are needed."""
    sz = gen.sizes(tier)
    ckw = dict(config_kw or {})
    if not config_kw and not graph_kw and draw(st.sampled_from(range(30))) == 7:
        return draw(gen.hashsquare_case(families=families))
    if ckw.get("ne") is not False and gen.chance(draw, 1):
        case = draw(gen.long_ne_case(families=families, width=ckw.get("width", "rand"), first_order=ckw.get("first_order", False)))
        case["gen"] = "long-ne"
        return case
    if ckw.get("ne") is not False and gen.chance(draw, ne_share):
        case = draw(gen.ne_case(max_nodes=sz["max_nodes"], max_len=sz["max_len"], families=families,
                                width=ckw.get("width", "rand"), first_order=ckw.get("first_order", False)))
        case["gen"] = "ne-friendly"
        return case
    ckw.setdefault("families", families)
    case = draw(gen.match_case(max_nodes=sz["max_nodes"], max_len=sz["max_len"], min_len=min_len, graph_kw=graph_kw,
                               trace_kw=trace_kw, config_kw=ckw))
    case["gen"] = "general"
    return case


@st.composite
def maybe_decoy(draw, case, share=3):
    """With probability ~share/10 add a second, different trace on the same map that is matched first on the same matcher."""
    if gen.chance(draw, share):
        if draw(st.booleans()) and len(case["trace"]) >= 2:
            # the same trace with another beginning: later observations (and with them the keys of the lattice) coincide, the
            # chains that reach them do not
            loc, _adj = gen.model_of(case["graph"])
            nodes = list(loc)
            k = draw(st.integers(1, min(2, len(case["trace"]) - 1)))
            head = []
            for _ in range(k):
                p = loc[gen.pick(draw, nodes)]
                head.append([p[0] + draw(st.integers(-20, 20)) / 100.0, p[1] + draw(st.integers(-20, 20)) / 100.0])
            case["decoy"] = head + [list(p[:2]) for p in case["trace"][k:]]
        else:
            case["decoy"] = draw(gen.trace_on(case["graph"], min_len=1, max_len=max(2, len(case["trace"]) + 1)))
    return case
