"""C05 — Cut-offs are honoured and matched positions are true nearest points.

Oracle: replay of the returned path under the independent model (distances, nearest points, normalised probability)
and comparison with the configured cut-offs; lat/lon positions against unit-vector spherical geometry."""
import math

from hypothesis import strategies as st

from .. import base, gen, audit, geomsph as gs
from ..base import Violation
from . import common

RULE = ("cases: (graph, trace, configuration with binding cut-offs, metric planar/lat-lon); non-trivial = non-empty result and "
        "some candidate was rejected by a cut-off in that run (the same case without cut-offs has a larger lattice); distinct = case JSON")
ASSUMPTIONS = ["planar: exact reference (1e-9); lat/lon: positions and distances within 0.25 m + 1e-6 L of the spherical reference, "
               "cut-off comparisons in lat/lon use the package's own reported distance (no decision depends on the tolerance)",
               "lat/lon probabilities are not replayed (C15 ties them to the planar model)"]
TOLERANCES = {"planar": 1e-9, "latlon_m": "0.25 + 1e-6 L"}
BUDGET = {"quick": {"shards": 8, "examples": 900}, "thorough": {"shards": 16, "examples": 9000}}


def lattice_size(matcher):
    return sum(1 for _ in base.lattice_entries(matcher))


def check_case(case, ctx):
    latlon = case["metric"] == "latlon"
    cfg = case["config"]
    if latlon:
        org, unit = case["origin"], case["unit"]
        g = gen.place_graph(case["graph"], org, unit)
        t = gen.place_trace(case["trace"], org, unit)
        c = gen.scale_config(cfg, unit)
        matcher = base.mk_matcher(base.mk_inmem(g, latlon=True), c)
        if case.get("decoy"):
            base.pkg(matcher.match, base.to_path(gen.place_trace(case["decoy"], org, unit)), clause="decoy-raised")
        states, idx = base.pkg(matcher.match, base.to_path(t))
        loose = base.mk_matcher(base.mk_inmem(g, latlon=True), dict(c, max_dist=None, max_dist_init=None, min_prob_norm=None))
        base.pkg(loose.match, base.to_path(t))
        audit_latlon(matcher, g, t, c)
    else:
        matcher, states, idx = common.run_match(case)
        recs = audit.replay_path(matcher, case, tol=1e-9)
        audit.audit_cutoffs(matcher, case, recs)
        loose = common.build(case, config=dict(cfg, max_dist=None, max_dist_init=None, min_prob_norm=None))
        base.pkg(loose.match, base.to_path(case["trace"]))
    binding = lattice_size(loose) > lattice_size(matcher)
    classes = [case["metric"], "family:" + cfg["family"]] + (["cutoff-binding"] if binding else [])
    for k in ("max_dist", "max_dist_init", "min_prob_norm"):
        if cfg.get(k):
            classes.append("set:" + k)
    ctx.record(case, bool(states) and binding, classes, base.canon(matcher, states, idx))


def audit_latlon(matcher, g, t, cfg):
    lb = matcher.lattice_best or []
    loc = {n[0]: tuple(n[1]) for n in g}
    max_dist = cfg.get("max_dist") or math.inf
    max_dist_init = cfg.get("max_dist_init") or max_dist
    min_lpn = math.log(cfg["min_prob_norm"]) if cfg.get("min_prob_norm") else -math.inf
    for m in lb:
        first = m.obs == 0 and m.obs_ne == 0
        if first and not m.dist_obs < max_dist_init:
            raise Violation("max_dist_init", f"{m.key}: distance {m.dist_obs} not below {max_dist_init}")
        if m.dist_obs > max_dist:
            raise Violation("max_dist", f"{m.key}: distance {m.dist_obs} exceeds {max_dist}")
        if m.logprob / m.length < min_lpn - 1e-9:
            raise Violation("min_prob_norm", f"{m.key}: normalised log-probability {m.logprob / m.length} below {min_lpn}")
        if m.obs_ne == 0:
            o = tuple(t[m.obs][:2])
            s = m.shortkey
            if isinstance(s, tuple):
                d, pi, ti = gs.pt_arc(o, loc[s[0]], loc[s[1]])
                L = gs.dist(loc[s[0]], loc[s[1]])
                tol = 0.25 + 1e-6 * L
                if abs(d - m.dist_obs) > tol:
                    raise Violation("distance", f"{m.key}: reported distance {m.dist_obs}, spherical distance {d}")
                if gs.dist(pi, m.edge_m.pi) > tol or abs(ti - m.edge_m.ti) * L > tol:
                    raise Violation("position", f"{m.key}: reported position {m.edge_m.pi}/{m.edge_m.ti}, nearest point {pi}/{ti}")
            else:
                d = gs.dist(o, loc[s])
                if abs(d - m.dist_obs) > 1e-6:
                    raise Violation("distance", f"{m.key}: reported distance {m.dist_obs}, spherical distance {d}")


def strategy(tier):
    sz = gen.sizes(tier)

    @st.composite
    def _s(draw):
        case = draw(gen.match_case(max_nodes=sz["max_nodes"], max_len=sz["max_len"]))
        cfg = case["config"]
        if draw(st.booleans()):  # make sure cut-offs are present
            cfg["max_dist"] = draw(st.sampled_from([0.3, 0.5, 1.0, 1.5, 2.0]))
            cfg["min_prob_norm"] = draw(st.sampled_from([None, 0.01, 0.1, 0.5, 0.8]))
            cfg["max_dist_init"] = draw(st.sampled_from([None, 0.3, 1.0, 2.5]))
        case = draw(common.maybe_decoy(case))
        case["metric"] = draw(st.sampled_from(["planar", "planar", "planar", "latlon"]))
        if case["metric"] == "latlon":
            case["origin"] = draw(gen.origin())
            case["unit"] = draw(st.sampled_from([10.0, 50.0, 200.0]))
        return case
    return _s()
