"""C20 — Path interpolation densifies without moving anything.

Oracle: validity predicate over the output (subsequence alignment of the originals, inserted points on the
straight / great-circle connection in order, no gap larger than the spacing), with independent geometry."""
import math

from hypothesis import strategies as st

from .. import base, geom2d as g2, geomsph as gs
from ..base import Violation

RULE = ("cases: (metric, trace of 1-6 points, spacing); planar traces from lattice/float points incl. repeated points "
        "and exact-multiple distances, lat/lon traces placed at |lat|<=70 with extents up to ~3 km; spacing over 4 "
        "decades relative to the hop length; non-trivial = at least one point was inserted; distinct = case JSON")
ASSUMPTIONS = ["trace of (y, x) / (lat, lon) pairs, finite coordinates, spacing > 0, at most ~400 inserted points per hop",
               "planar tolerance 1e-9*max(1, scale); lat/lon tolerance 1e-4 m + 1e-7*L against unit-vector spherical geometry",
               "duplicate points in the output are allowed (the statement does not forbid them)"]
TOLERANCES = {"planar": "1e-9*max(1,scale)", "latlon_m": "1e-4 + 1e-7*L", "gap": "spacing*(1+1e-9)+tol"}
BUDGET = {"quick": {"shards": 8, "examples": 1500}, "thorough": {"shards": 16, "examples": 30000}}


def _mods():
    base.load_repo()
    from leuvenmapmatching.util import dist_euclidean as de, dist_latlon as dl
    return de, dl


def check_case(case, ctx):
    de, dl = _mods()
    latlon = case["metric"] == "latlon"
    path = [tuple(p) for p in case["trace"]]
    if latlon and any(gs.dist(a, b) > 1.5e7 for a, b in zip(path, path[1:])):
        # a leg near half the circumference has no well-defined (minor-arc) great-circle connection: outside the generator's domain
        ctx.record(case, False, ["skipped:near-antipodal-leg"])
        return
    dd = case["spacing"]
    out = base.pkg((dl if latlon else de).interpolate_path, list(path), dd)
    out = [tuple(p[:2]) for p in out]
    if latlon:
        dist, cross = gs.dist, lambda q, a, b: gs.pt_arc(q, a, b)
    else:
        dist, cross = g2.dist, lambda q, a, b: (g2.pt_seg(q, a, b), None, g2.proj(q, a, b)[1])
    hop = max([dist(a, b) for a, b in zip(path, path[1:])] + [0.0])
    scale = max([abs(c) for p in path for c in p] + [1.0])
    tol = (1e-4 + 1e-7 * hop) if latlon else 1e-9 * max(1.0, scale, hop)
    if not out or out[0] != path[0]:
        raise Violation("first", f"first point {out[:1]} != {path[0]}")
    if out[-1] != path[-1]:
        raise Violation("last", f"last point {out[-1]} != {path[-1]}")
    # align the originals as a subsequence (greedy, earliest occurrence)
    idx, j = [], 0
    for p in path:
        while j < len(out) and out[j] != p:
            j += 1
        if j >= len(out):
            raise Violation("subsequence", f"original point {p} (#{len(idx)}) not kept in order; output has {len(out)} points")
        idx.append(j)
        j += 1
    if idx[0] != 0:
        raise Violation("first", "points inserted before the first original")
    for q in out[idx[-1] + 1:]:
        if q != path[-1]:
            raise Violation("after-last", f"point {q} after the last original")
    inserted = 0
    for i in range(len(path) - 1):
        a, b = path[i], path[i + 1]
        prev_t = -1e-7
        for q in out[idx[i] + 1: idx[i + 1]]:
            inserted += 1
            d, _pt, t = cross(q, a, b)
            if d > tol:
                raise Violation("on-connection", f"inserted point {q} is {d} away from the connection {a}->{b} (tol {tol})")
            if t < prev_t - 1e-7:
                raise Violation("order", f"inserted point {q} at t={t} after t={prev_t} between {a} and {b}")
            prev_t = t
    for u, v in zip(out, out[1:]):
        gap = dist(u, v)
        if gap > dd * (1 + 1e-9) + tol:
            raise Violation("gap", f"gap {gap} between {u} and {v} exceeds the spacing {dd}")
    classes = [case["metric"], "len%d" % min(len(path), 3)]
    if inserted:
        classes.append("inserted")
    if len(set(path)) < len(path):
        classes.append("repeated-point")
    if case.get("exact_multiple"):
        classes.append("exact-multiple")
    ctx.record(case, inserted > 0, classes, {"n_in": len(path), "n_out": len(out)})


_half = st.integers(-20, 20).map(lambda i: i / 2.0)
_flt = st.floats(-20, 20, allow_nan=False).map(lambda x: round(x, 3))


@st.composite
def _planar(draw):
    n = draw(st.integers(1, 6))
    sc = draw(st.sampled_from([1.0, 1.0, 100.0, 1e4]))
    off = draw(st.sampled_from([0.0, 0.0, 5e6]))
    pts = []
    for _ in range(n):
        if pts and draw(st.integers(0, 9)) == 0:
            pts.append(pts[draw(st.integers(0, len(pts) - 1))])
        else:
            c = draw(st.sampled_from([_half, _flt]))
            pts.append((off + sc * draw(c), off / 2 + sc * draw(c)))
    hops = [g2.dist(a, b) for a, b in zip(pts, pts[1:]) if a != b] or [sc]
    exact = False
    mode = draw(st.integers(0, 3))
    if mode == 0:
        k = draw(st.integers(1, 12))
        dd = hops[draw(st.integers(0, len(hops) - 1))] / k
        exact = True
    elif mode == 1:
        dd = sc * draw(st.sampled_from([0.25, 0.5, 1.0, 2.0, 5.0]))
    else:
        dd = max(hops) * draw(st.floats(0.004, 3.0))
    dd = max(dd, max(hops) / 400.0)
    return {"metric": "planar", "trace": [list(p) for p in pts], "spacing": dd, "exact_multiple": exact}


@st.composite
def _latlon(draw):
    n = draw(st.integers(1, 6))
    origin = (draw(st.floats(-70, 70)), draw(st.floats(-179, 179)))
    ext = draw(st.sampled_from([20.0, 200.0, 3000.0, 3000.0, "long-haul"]))
    pts = []
    for _ in range(n):
        if pts and draw(st.integers(0, 9)) == 0:
            pts.append(pts[draw(st.integers(0, len(pts) - 1))])
        elif ext == "long-haul":
            # legs of hundreds to thousands of km (arcs well below 180 degrees): the bearing changes along the great circle
            pts.append((float(draw(st.integers(-70, 70))) + draw(st.sampled_from([0.0, 0.25, 0.5])),
                        float(draw(st.integers(-150, 150))) + draw(st.sampled_from([0.0, 0.25, 0.5]))))
        else:
            y, x = draw(st.floats(-1, 1)) * ext, draw(st.floats(-1, 1)) * ext
            pts.append(gs.local_to_latlon(origin, y, x))
    if ext == "long-haul":
        # keep every leg below ~120 degrees of arc so that "the" great-circle connection is the minor arc by a wide margin
        kept = []
        for p in pts:
            if not kept or gs.dist(kept[-1], p) < 1.3e7:
                kept.append(p)
        pts = kept
        ext = 1.0e7
    hops = [gs.dist(a, b) for a, b in zip(pts, pts[1:]) if a != b] or [ext]
    mode = draw(st.integers(0, 2))
    exact = False
    if mode == 0:
        dd = hops[draw(st.integers(0, len(hops) - 1))] / draw(st.integers(1, 12))
        exact = True
    elif mode == 1:
        dd = draw(st.sampled_from([1.0, 5.0, 10.0, 50.0, 250.0]))
    else:
        dd = max(hops) * draw(st.floats(0.004, 3.0))
    dd = max(dd, max(hops) / 400.0, 1e-3)
    return {"metric": "latlon", "trace": [list(p) for p in pts], "spacing": dd, "exact_multiple": exact}


def strategy(tier):
    return st.one_of(_planar(), _latlon())


def extra_engines(tier, seed, scratch):
    if tier != "thorough":
        return []
    from ..fuzz import run_atheris
    return [run_atheris("C20", seed, scratch, runs=100000)]
