"""C06 — Allowing non-emitting states never makes the match worse.

Oracle: differential — the same first-order, unpruned case with non_emitting_states False and True."""
from hypothesis import strategies as st

from .. import base, gen
from ..base import Violation
from . import common

RULE = ("cases: (planar graph, trace, first-order configuration without width: avoid_goingback=False, all three families, "
        "restrained_ne on/off, any noises and cut-offs); both settings of non_emitting_states are run on fresh matchers; "
        "non-trivial = the two runs differ (longer prefix, better probability or a non-emitting state on the best path); "
        "distinct = case JSON")
ASSUMPTIONS = ["planar metric, InMemMap; graphs <= 12 nodes, traces <= 12 points", "probabilities compared with 1e-9 relative slack"]
TOLERANCES = {"logprob": 1e-9}
BUDGET = {"quick": {"shards": 8, "examples": 1000}, "thorough": {"shards": 16, "examples": 9000}}


def check_case(case, ctx):
    cfg = case["config"]
    assert cfg.get("avoid_goingback") is False and not cfg.get("max_lattice_width")
    n = len(case["trace"])
    res = {}
    for ne in (False, True):
        c = dict(cfg, non_emitting_states=ne)
        if not ne:
            for k in ("obs_noise_ne", "non_emitting_length_factor", "dist_noise_ne", "restrained_ne"):
                c.pop(k, None)
        matcher = common.build(case, config=c)
        states, idx = base.pkg(matcher.match, base.to_path(case["trace"]))
        cn = base.canon(matcher, states, idx)
        lp = base.best_emitting_lp(matcher, idx) if cn["n_emit"] else None
        res[ne] = (cn, lp)
    (c0, lp0), (c1, lp1) = res[False], res[True]
    if c1["n_emit"] < c0["n_emit"]:
        raise Violation("prefix", f"with non-emitting states {c1['n_emit']} observations are matched, without them {c0['n_emit']}")
    if c0["n_emit"] == n and c1["n_emit"] == n and lp1 < lp0 - 1e-9 * max(1.0, abs(lp0)):
        raise Violation("probability", f"whole trace matched either way, best probability with non-emitting states {lp1} < without {lp0}")
    classes = ["family:" + cfg["family"], "gen:" + case.get("gen", "?")]
    differ = False
    if c1["n_emit"] > c0["n_emit"]:
        classes.append("longer-prefix")
        differ = True
    if c0["n_emit"] == n and c1["n_emit"] == n and lp1 > lp0 + 1e-9:
        classes.append("better-probability")
        differ = True
    if any(k[-1] != 0 for k in c1["keys"]):
        classes.append("ne-in-path")
        differ = True
    ctx.record(case, differ, classes, {"without": c0, "with": c1})


def strategy(tier):
    @st.composite
    def _s(draw):
        if draw(st.integers(0, 3)) == 0:
            # distance-based matcher whose non-emitting transition noise is much tighter than the emitting one, observations
            # beside the road: a state won through a non-emitting chain must still be continued with the emitting noise
            sz = gen.sizes(tier)
            g = draw(gen.planar_graph(min_nodes=4, max_nodes=sz["max_nodes"], families=["chain"], chain_steps=[1.0, 1.5, 2.0],
                                      self_listed=False))
            t = draw(gen.trace_on(g, min_len=3, max_len=sz["max_len"], kinds=["sparse"], sigmas=[0.2, 0.5]))
            c = draw(gen.config(families=("distance",), ne=True, width=None, first_order=True))
            c["obs_noise"] = draw(st.sampled_from([0.5, 1.0]))
            c["dist_noise"] = draw(st.sampled_from([1.0, 2.0]))
            c["dist_noise_ne"] = draw(st.sampled_from([0.1, 0.25]))
            c["max_dist"] = None
            c["max_dist_init"] = None
            c["min_prob_norm"] = draw(st.sampled_from([None, None, 0.01, 0.1]))
            case = {"graph": g, "trace": t, "config": c, "gen": "ne-friendly+tight-ne-noise"}
        else:
            case = draw(common.mixed_case(tier, ne_share=5, min_len=2, config_kw={"ne": True, "width": None, "first_order": True}))
        case["config"]["max_lattice_width"] = None
        return case
    return _s()
