"""C14 — Geodesic primitives agree with spherical geometry.

Oracle: independent 3-D unit-vector spherical geometry (geomsph); metamorphic end-point swap; box containment."""
import math

from hypothesis import strategies as st

from .. import base, geomsph as gs
from ..base import Violation

RULE = ("cases: kind in distance/destination/pointseg/segseg/box at an origin |lat|<=60, lon in (-179,179); segment "
        "lengths 0.1 m - 3 km at uniform bearings, query points within 3 segment lengths (before / beside / after the "
        "segment, on it, at its end points), radii 1 m - 3 km; non-trivial = the query is not an end point of the segment "
        "(always for distance/destination/box with positive length); distinct = case JSON")
ASSUMPTIONS = ["sphere R = 6 371 000 m; |lat| <= 60 deg, |lon| <= 179 deg",
               "point-to-segment tolerance 0.25 m + 1e-6*L (the package's acos(cos d13/cos dxt) step is ill-conditioned at "
               "sqrt(eps)*R ~ 0.1 m); distance tolerance 1e-6 m + 1e-9 relative",
               "segment-to-segment: additional planar-frame distortion allowance 2*E^2*(1+tan|lat|)/R, E = extent of the four points"]
TOLERANCES = {"distance": "1e-6 m + 1e-9 rel", "pointseg": "0.25 m + 1e-6*L", "segseg": "0.25 m + 1e-6*E + 2*E^2*(1+tan|lat|)/R",
              "box": "sampled at radius r - max(1e-9 r, 1e-7 m), radii 1 m - 200 km"}
BUDGET = {"quick": {"shards": 8, "examples": 2500}, "thorough": {"shards": 16, "examples": 40000}}


def _dl():
    base.load_repo()
    from leuvenmapmatching.util import dist_latlon as dl
    return dl


def _angdiff(a, b):
    d = (a - b) % (2 * math.pi)
    return min(d, 2 * math.pi - d)


def check_distance(p, q):
    dl = _dl()
    d = base.pkg(dl.distance, p, q)
    ref = gs.dist(p, q)
    if abs(d - ref) > 1e-6 + 1e-9 * ref:
        raise Violation("distance", f"distance({p},{q})={d}, great-circle distance {ref}")
    if abs(base.pkg(dl.distance, q, p) - d) > 1e-6 + 1e-9 * ref:
        raise Violation("distance.symmetry", "distance(p,q) != distance(q,p)")
    return "len-decade:%d" % (int(math.floor(math.log10(ref))) if ref > 0 else -9)


def check_destination(p, brng, d):
    dl = _dl()
    lat2, lon2 = base.pkg(dl.destination_radians, math.radians(p[0]), math.radians(p[1]), brng, d)
    q = (math.degrees(lat2), math.degrees(lon2))
    ref = gs.destination(p, brng, d)
    tol = 1e-6 + 1e-9 * d
    if gs.dist(q, ref) > tol:
        raise Violation("destination", f"destination({p}, {brng}, {d}) = {q}, spherical construction gives {ref}")
    back = base.pkg(dl.distance, p, q)
    if abs(back - d) > tol:
        raise Violation("destination.inverse-distance", f"distance to the destination is {back}, asked for {d}")
    if d > 0.05:
        b = base.pkg(dl.bearing_radians, math.radians(p[0]), math.radians(p[1]), lat2, lon2)
        if _angdiff(b, brng) * d > max(tol, 1e-7 * d):  # bearing error expressed as displacement at distance d
            raise Violation("destination.inverse-bearing", f"bearing to the destination is {b}, asked for {brng}")
    return "dest"


def check_pointseg(p, s1, s2):
    dl = _dl()
    L = gs.dist(s1, s2)
    tol = 0.25 + 1e-6 * L
    d, pi, ti = base.pkg(dl.distance_point_to_segment, p, s1, s2)
    rd, rpi, rti = gs.pt_arc(p, s1, s2)
    if not (0.0 <= ti <= 1.0):
        raise Violation("pointseg.range", f"relative position {ti} outside [0,1]")
    if abs(d - rd) > tol:
        raise Violation("pointseg.distance", f"distance {d}, spherical nearest-point distance {rd} (L={L})")
    if gs.dist(pi, rpi) > tol + math.sqrt(2 * tol * max(rd, tol)) * 0:  # nearest point itself
        raise Violation("pointseg.point", f"projection {pi}, spherical nearest point {rpi} ({gs.dist(pi, rpi)} m apart)")
    if abs(ti - rti) * L > tol:
        raise Violation("pointseg.position", f"relative position {ti}, spherical {rti} (L={L})")
    if abs(gs.dist(pi, p) - d) > tol:
        raise Violation("pointseg.consistent", f"reported distance {d} but the reported point is {gs.dist(pi, p)} away")
    # end-point swap invariance
    d2, pi2, ti2 = base.pkg(dl.distance_point_to_segment, p, s2, s1)
    if abs(d2 - d) > tol or gs.dist(pi2, pi) > tol or abs((1 - ti2) - ti) * L > tol:
        raise Violation("pointseg.swap", f"swapping the end points changes ({d},{pi},{ti}) into ({d2},{pi2},{ti2})")
    # project() is the same computation
    ppi, pti = base.pkg(dl.project, s1, s2, p)
    if gs.dist(ppi, pi) > 1e-6 or abs(pti - ti) > 1e-9:
        raise Violation("pointseg.project", "project() disagrees with distance_point_to_segment()")
    where = "before" if rti == 0.0 else ("after" if rti == 1.0 else "inside")
    return where


def check_segseg(f1, f2, t1, t2):
    dl = _dl()
    pts = [f1, f2, t1, t2]
    E = max(gs.dist(a, b) for a in pts for b in pts)
    lat = max(abs(p[0]) for p in pts)
    tol = 0.25 + 1e-6 * E + 2 * E * E * (1 + math.tan(math.radians(lat))) / gs.R
    d, pf, pt, uf, ut = base.pkg(dl.distance_segment_to_segment, f1, f2, t1, t2)
    ref = gs.arc_arc(f1, f2, t1, t2)
    if not (-1e-12 <= uf <= 1 + 1e-12 and -1e-12 <= ut <= 1 + 1e-12):
        raise Violation("segseg.range", f"relative positions {uf}, {ut}")
    if abs(d - ref) > tol:
        raise Violation("segseg.distance", f"distance {d}, spherical minimum distance {ref} (extent {E}, tol {tol})")
    if gs.dist(pf, gs.at(f1, f2, uf)) > tol:
        raise Violation("segseg.witness_f", f"pf={pf} not at u_f={uf} of the first segment")
    if gs.dist(pt, gs.at(t1, t2, ut)) > tol:
        raise Violation("segseg.witness_t", f"pt={pt} not at u_t={ut} of the second segment")
    if abs(gs.dist(pf, pt) - d) > tol:
        raise Violation("segseg.realise", f"|pf-pt|={gs.dist(pf, pt)} but d={d}")
    return "cross" if ref == 0.0 else "apart"


def check_box(p, r, bearings):
    dl = _dl()
    lat_b, lon_l, lat_t, lon_r = base.pkg(dl.box_around_point, p, r)
    # points just inside the radius: 1e-9 relative, but at least 1e-7 m (the reference destination is accurate to ~1e-8 m)
    rin = r - max(1e-9 * r, 1e-7)
    for b in bearings:
        q = gs.destination(p, b, rin)
        if not (lat_b <= q[0] <= lat_t and lon_l <= q[1] <= lon_r):
            raise Violation("box.contains", f"{q} is {gs.dist(p, q):.6f} m from {p} (< r={r}) but outside the box {(lat_b, lon_l, lat_t, lon_r)}")
    return "box"


def check_case(case, ctx):
    k = case["kind"]
    P = [tuple(p) for p in case["pts"]]
    nontrivial = True
    if k == "distance":
        cls = check_distance(P[0], P[1])
        nontrivial = P[0] != P[1]
    elif k == "destination":
        cls = check_destination(P[0], case["bearing"], case["d"])
        nontrivial = case["d"] > 0
    elif k == "pointseg":
        cls = check_pointseg(P[0], P[1], P[2])
        nontrivial = P[0] not in (P[1], P[2])
    elif k == "segseg":
        cls = check_segseg(*P)
        nontrivial = len(set(P)) == 4
    else:
        cls = check_box(P[0], case["r"], case["bearings"])
    hemi = "N" if P[0][0] >= 0 else "S"
    ctx.record(case, nontrivial, [f"{k}:{cls}", f"hemisphere:{hemi}", "where:" + case.get("where", "-")], {"class": cls})


_origin = st.tuples(st.one_of(st.floats(-60, 60), st.sampled_from([0.0, 50.87, -33.9, 60.0, -60.0])),
                    st.one_of(st.floats(-179, 179), st.sampled_from([0.0, 4.7, -122.3, 151.2, 179.0, -179.0])))
_len = st.one_of(st.sampled_from([0.1, 1.0, 10.0, 100.0, 1000.0, 3000.0]),
                 st.floats(0.1, 3000.0), st.floats(-1, 3.47).map(lambda e: 10 ** e))
_brg = st.floats(0, 2 * math.pi)


@st.composite
def _segment(draw):
    o = draw(_origin)
    L = draw(_len)
    s2 = gs.destination(o, draw(_brg), L)
    if abs(s2[0]) > 60.0 or abs(s2[1]) > 179.0:
        s2 = gs.destination(o, math.pi / 2 if o[1] < 0 else -math.pi / 2, L) if abs(o[0]) < 60 else (o[0] * 0.999, o[1])
    return o, s2, L


@st.composite
def _query(draw, s1, s2, L):
    mode = draw(st.sampled_from(["beside", "beside", "before", "after", "on", "end", "far"]))
    b12 = gs.bearing(s1, s2)
    if mode == "end":
        return draw(st.sampled_from([s1, s2])), mode
    if mode == "on":
        return gs.at(s1, s2, draw(st.floats(0, 1))), mode
    along = {"beside": draw(st.floats(0, 1)), "before": -draw(st.floats(0.01, 3)), "after": 1 + draw(st.floats(0.01, 3)),
             "far": draw(st.floats(-3, 4))}[mode] * L
    off = draw(st.floats(-3, 3)) * L if mode != "far" else draw(st.floats(-3, 3)) * L
    base_pt = gs.destination(s1, b12, along)
    q = gs.destination(base_pt, b12 + math.pi / 2, off)
    return q, mode


@st.composite
def _case(draw):
    kind = draw(st.sampled_from(["distance", "destination", "pointseg", "pointseg", "pointseg", "segseg", "segseg", "box"]))
    if kind == "distance":
        s1, s2, L = draw(_segment())
        if draw(st.integers(0, 19)) == 0:
            s2 = s1
        return {"kind": kind, "pts": [list(s1), list(s2)]}
    if kind == "destination":
        o = draw(_origin)
        return {"kind": kind, "pts": [list(o)], "bearing": draw(st.one_of(_brg, st.floats(-math.pi, math.pi))),
                "d": draw(st.one_of(_len, st.just(0.0)))}
    if kind == "pointseg":
        s1, s2, L = draw(_segment())
        if draw(st.integers(0, 29)) == 0:
            s2 = s1
        q, where = draw(_query(s1, s2, max(L, 0.1)))
        return {"kind": kind, "pts": [list(q), list(s1), list(s2)], "where": where}
    if kind == "segseg":
        f1, f2, L = draw(_segment())
        t1, where = draw(_query(f1, f2, L))
        t2 = gs.destination(t1, draw(_brg), draw(_len) if draw(st.booleans()) else L * draw(st.floats(0.1, 3)))
        return {"kind": kind, "pts": [list(f1), list(f2), list(t1), list(t2)], "where": where}
    o = draw(_origin)
    r = draw(st.one_of(st.sampled_from([1.0, 10.0, 100.0, 1000.0, 3000.0, 2.0e4, 2.0e5]), st.floats(1.0, 3000.0)))
    bearings = [k * math.pi / 4 for k in range(8)] + draw(st.lists(_brg, min_size=2, max_size=6))
    return {"kind": "box", "pts": [list(o)], "r": r, "bearings": bearings}


def strategy(tier):
    return _case()


def extra_engines(tier, seed, scratch):
    if tier != "thorough":
        return []
    from ..fuzz import run_atheris
    return [run_atheris("C14", seed, scratch, runs=100000)]
