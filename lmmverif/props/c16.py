"""C16 — Matching is invariant under relabelling and rigid motions of the plane.

Oracle: metamorphic — transform map, trace and distance parameters, predict the result (same index and probability,
path equal up to renaming unless probabilities tie)."""
from hypothesis import strategies as st

from .. import audit, base, gen
from ..base import Violation
from . import common

RULE = ("cases: (planar case, transformation in relabel (ints<->strings bijection) / reorder (node and neighbour order) / axis "
        "swap / scale by 2^k, k in -30..30, of all coordinates and distance parameters / translate by an exactly representable "
        "offset (only without width) / a composition; fork and star maps with exact ties); non-trivial = non-empty result with >= 2 distinct states; distinct = case JSON")
ASSUMPTIONS = ["planar metric, InMemMap; graphs <= 12 nodes, traces <= 12 points", "probabilities: 1e-9 relative (translation 1e-6)",
               "a different path (after renaming) is accepted only when the probabilities agree to 1e-12 (exact tie)"]
TOLERANCES = {"logprob": 1e-9, "translation": 1e-6, "tie": 1e-12}
BUDGET = {"quick": {"shards": 8, "examples": 800}, "thorough": {"shards": 16, "examples": 8000}}

DIST_KEYS = ("obs_noise", "obs_noise_ne", "dist_noise", "dist_noise_ne", "max_dist", "max_dist_init", "beta", "beta_ne")


def transform(case):
    tf = case["transform"]
    g = [[lab, list(loc), list(nb)] for lab, loc, nb in case["graph"]]
    t = [list(p) for p in case["trace"]]
    cfg = dict(case["config"])
    ren = {n[0]: n[0] for n in g}
    if "relabel" in tf:
        ren = {old: new for old, new in zip([n[0] for n in g], tf["relabel"])}
        g = [[ren[lab], loc, [ren[x] for x in nb]] for lab, loc, nb in g]
    if "reorder" in tf:
        g2 = []
        for i in tf["reorder"]["nodes"]:
            lab, loc, nb = g[i]
            k = tf["reorder"]["rot"][i] % max(1, len(nb))
            g2.append([lab, loc, nb[k:] + nb[:k]])
        g = g2
    if tf.get("swap"):
        g = [[lab, [loc[1], loc[0]], nb] for lab, loc, nb in g]
        t = [[p[1], p[0]] for p in t]
    if "scale" in tf:
        f = 2.0 ** tf["scale"]
        g = [[lab, [loc[0] * f, loc[1] * f], nb] for lab, loc, nb in g]
        t = [[p[0] * f, p[1] * f] for p in t]
        for k in DIST_KEYS:
            if cfg.get(k) is not None:
                cfg[k] = cfg[k] * f
    if "translate" in tf:
        dy, dx = tf["translate"]
        g = [[lab, [loc[0] + dy, loc[1] + dx], nb] for lab, loc, nb in g]
        t = [[p[0] + dy, p[1] + dx] for p in t]
    linked = None
    if case.get("linked"):
        linked = [[[ren[a[0]], ren[a[1]]], [ren[b[0]], ren[b[1]]]] for a, b in case["linked"]]
    return g, t, cfg, ren, linked


def check_case(case, ctx):
    tf0 = case["transform"]
    if "translate" in tf0:
        dy, dx = tf0["translate"]
        pts = [n[1] for n in case["graph"]] + [p[:2] for p in case["trace"]]
        if any((p[0] + dy) - dy != p[0] or (p[1] + dx) - dx != p[1] for p in pts):
            ctx.record(case, False, ["skipped:translation-not-exactly-representable"])
            return
    m1, s1, i1 = common.run_match(case)
    c1 = base.canon(m1, s1, i1)
    g, t, cfg, ren, linked = transform(case)
    m2 = base.mk_matcher(base.mk_inmem(g, linked=linked), cfg)
    s2, i2 = base.pkg(m2.match, base.to_path(t), unique=case.get("unique", False), clause="transformed-raised")
    c2 = base.canon(m2, s2, i2)
    tf = case["transform"]
    names = sorted(k for k in tf if tf[k] not in (None, False))
    what = "+".join(names)
    if c1["idx"] != c2["idx"] or c1["n_emit"] != c2["n_emit"]:
        raise Violation(f"index.{what}", f"original matches up to {c1['idx']} ({c1['n_emit']} obs), transformed ({tf}) up to {c2['idx']} ({c2['n_emit']})")
    tol = 1e-6 if "translate" in tf else 1e-9
    if not base.close(c1["lp"], c2["lp"], tol):
        trailing = (c1["keys"] and c1["keys"][-1][-1] != 0) or (c2["keys"] and c2["keys"][-1][-1] != 0)
        # (a relabelling changes the order of equally distant start candidates, which the map sorts by (distance, label))
        if (("reorder" in tf or "relabel" in tf) and trailing and case["config"].get("non_emitting_states") and
                ctx.known("KF-NE-ORDER", "after an early stop the best path ends in a run of non-emitting states whose content depends on "
                                         "the order in which neighbours are listed")):
            ctx.record(case, False, ["excluded:KF-NE-ORDER"])
            return
        if ("reorder" in tf or "relabel" in tf) and case["config"].get("non_emitting_states"):
            why = audit.ne_revisit_tie(m1, m2, ren)
            if why and ctx.known("KF-NE-ORDER", "the no-revisit filter of a non-emitting run follows the one chain kept among equally "
                                                "probable predecessors; which one is kept depends on the listing / label order"):
                ctx.record(case, False, ["excluded:KF-NE-ORDER", "KF-NE-ORDER:revisit-filter-tie"])
                return
        raise Violation(f"probability.{what}", f"original best log-probability {c1['lp']}, transformed ({tf}) {c2['lp']}")
    want = [[ren[x] for x in k[:-2]] + list(k[-2:]) for k in c1["keys"]]
    classes = ["family:" + case["config"]["family"]] + ["tf:" + n for n in names]
    if want != c2["keys"]:
        # under a translation the coordinates themselves are perturbed by an ulp of the offset, so alternatives closer than the
        # probability tolerance are indistinguishable ("tie") there
        if c1["lp"] is not None and base.close(c1["lp"], c2["lp"], 1e-12 if "translate" not in tf else tol):
            classes.append("tie-different-path")
        else:
            raise Violation(f"path.{what}", f"original path {want} (renamed), transformed path {c2['keys']}")
    if "scale" in tf:
        classes.append("scale:%s" % ("tiny" if tf["scale"] <= -14 else "huge" if tf["scale"] >= 14 else "moderate"))
    if any(k[-1] != 0 for k in c1["keys"]):
        classes.append("ne-in-path")
    if case["config"].get("max_lattice_width"):
        classes.append("width")
    ctx.record(case, c1["n_emit"] > 0 and len({tuple(k[:-2]) for k in c1["keys"]}) >= 2, classes, c1)


def strategy(tier):
    @st.composite
    def _s(draw):
        pick_gen = draw(st.integers(0, 11))
        case = (draw(gen.fork_case()) if pick_gen <= 1 else draw(gen.star_case()) if pick_gen == 2 else
                draw(common.mixed_case(tier, ne_share=3, min_len=2)))
        g = case["graph"]
        n = len(g)
        kind = draw(st.sampled_from(["relabel", "relabel", "reorder", "swap", "scale", "scale", "translate", "all"]))
        if case.get("gen") in ("fork", "star"):
            kind = draw(st.sampled_from(["reorder", "reorder", "all", "relabel"]))  # tied branches: the listing order is what matters
        if kind == "relabel" and type(g[0][0]) is int and draw(st.booleans()):
            # start from string labels so that the relabelling goes to integers (including 0)
            names = draw(gen.labels(n, "str"))
            ren0 = {old[0]: new for old, new in zip(g, names)}
            case["graph"] = g = [[ren0[lab], loc, [ren0[x] for x in nb]] for lab, loc, nb in g]
        tf = {}
        if kind in ("relabel", "all"):
            target = "str" if type(g[0][0]) is int else draw(st.sampled_from(["int", "int", "str"]))
            tf["relabel"] = draw(gen.labels(n, target))
            if target == "int" and 0 not in tf["relabel"] and draw(st.booleans()):
                tf["relabel"][draw(st.integers(0, n - 1))] = 0  # a label that is falsy in Python
        elif kind == "relabel0":
            pass
        if kind in ("reorder", "all"):
            tf["reorder"] = {"nodes": gen.shuffled(draw, range(n)), "rot": [draw(st.integers(0, 3)) for _ in range(n)]}
        if kind in ("swap", "all"):
            tf["swap"] = True
        if kind in ("scale", "all"):
            tf["scale"] = draw(st.one_of(st.integers(-30, 30), st.sampled_from([-30, -20, -14, -10, 10, 20, 30])))
        # translation is not composed with scaling: offset/coordinate ratios of 1e10 would make the offsets inexact
        if kind == "translate":
            # "exactly representable offsets": coordinate + offset must be exact, so the case is put on a 1/64 lattice first
            # (offsets are multiples of 1/4 up to 2^22: 28 significant bits)
            case["graph"] = [[lab, [round(p[0] * 64) / 64.0, round(p[1] * 64) / 64.0], nb] for lab, p, nb in case["graph"]]
            case["trace"] = [[round(p[0] * 64) / 64.0, round(p[1] * 64) / 64.0] for p in case["trace"]]
            case["config"]["max_lattice_width"] = None
            tf["translate"] = [float(draw(st.sampled_from([1, -3, 1024, -65536, 2 ** 20, 0.5]))),
                               float(draw(st.sampled_from([0, 7, -1024, 4096, 2 ** 22, 0.25])))]
        case["transform"] = tf
        case["unique"] = draw(st.booleans())
        return case
    return _s()
