"""C02 — Reported probability is the model probability of the reported path.

Oracle: independent replay of the documented model along the returned best path (hmmref + exact geometry),
after single calls and after histories of incremental-extension / widening calls."""
from hypothesis import strategies as st

from .. import base, gen, audit
from ..base import Violation
from . import common

RULE = ("cases: (planar graph, trace, any configuration incl. non-emitting states / widths / node states / avoid_goingback / "
        "separate non-emitting noises, optional history match-extend-widen-rematch); every entry of the best path is recomputed; "
        "non-trivial = best path with >= 2 distinct states; classes: non-emitting run (length >= 2), emitting after "
        "non-emitting, after a history; distinct = case JSON")
ASSUMPTIONS = ["planar metric, InMemMap; graphs <= 12 nodes, traces <= 12 points",
               "for a non-emitting edge state any valid witness pair (points on both segments, at the reported relative positions, at the "
               "true segment distance) is accepted and then used for the travelled distances",
               "relative tolerance 1e-8", "open finding F14 (stale probability after extend/widen) recognised only by its signature: "
               "history with at least one expansion call, reported value LOWER than the model value"]
TOLERANCES = {"relative": 1e-8}
BUDGET = {"quick": {"shards": 8, "examples": 600}, "thorough": {"shards": 16, "examples": 10000}}


def check_case(case, ctx):
    state = {"n_checked": 0}

    def after(matcher, op, states, idx, cur):
        if states is None:
            return
        expansions = state.get("expansions", 0) + (1 if op[0] != "match" else 0)
        state["expansions"] = expansions
        try:
            audit.replay_path(matcher, case, tol=1e-8, trace=case["trace"][:cur])
        except Violation as v:
            if (v.clause in ("logprob", "logprob_ne") and expansions >= 1 and _reported_lower(v) and
                    ctx.known("F14", "after extend/widen a path entry keeps a log-probability computed from a predecessor that was later improved")):
                state["kf"] = True
                return
            raise
        state["n_checked"] += 1

    matcher, res, cur, applied = common.apply_history(case, after=after)
    lb = matcher.lattice_best or []
    classes = ["family:" + case["config"]["family"], "gen:" + case.get("gen", "?"), "ops:%d" % min(len(applied), 3)]
    run = 0
    for a, b in zip(lb, lb[1:]):
        if b.obs_ne:
            run = max(run, b.obs_ne)
        if a.obs_ne and not b.obs_ne:
            classes.append("emitting-after-ne")
    if run:
        classes.append("ne-run")
    if run >= 2:
        classes.append("ne-run>=2")
    if case["config"].get("avoid_goingback"):
        classes.append("avoid_goingback")
    if state.get("kf"):
        classes.append("excluded:F14")
    ctx.record(case, len({m.shortkey for m in lb}) >= 2 and not state.get("kf"), sorted(set(classes)),
               base.canon(matcher, res[0], res[1]) if res else None)


def _reported_lower(v):
    import re
    m = re.search(r"reported log-probability (\S+), the model assigns (\S+) to", v.msg)
    return bool(m) and float(m.group(1)) < float(m.group(2))


def strategy(tier):
    @st.composite
    def _s(draw):
        case = draw(common.mixed_case(tier, ne_share=4, min_len=2))
        if draw(st.integers(0, 2)) == 0:
            case["ops"] = draw(common.history_ops(len(case["trace"])))
            if case["config"].get("max_lattice_width") is None and draw(st.booleans()):
                case["config"]["max_lattice_width"] = draw(st.sampled_from([1, 2, 3]))
        else:
            case["ops"] = [["match", len(case["trace"])]]
        return case
    return _s()
