"""C02 — Reported probability is the model probability of the reported path.

Oracle: independent replay of the documented model along the returned best path (hmmref + exact geometry),
after single calls and after histories of incremental-extension / widening calls."""
from hypothesis import strategies as st

from .. import base, gen, audit
from ..base import Violation
from . import common

RULE = ("cases: (planar graph - a fifth with linked parallel edges -, trace, any configuration of the four matcher families incl. non-emitting states / widths / node states / avoid_goingback / "
        "separate non-emitting noises, optional history match-extend-widen-rematch); every entry of the best path is recomputed; "
        "non-trivial = best path with >= 2 distinct states; classes: non-emitting run (length >= 2), emitting after "
        "non-emitting, after a history; distinct = case JSON")
ASSUMPTIONS = ["planar metric, InMemMap; graphs <= 12 nodes, traces <= 12 points",
               "for a non-emitting edge state any valid witness pair (points on both segments, at the reported relative positions, at the "
               "true segment distance) is accepted and then used for the travelled distances",
               "relative tolerance 1e-8", "open finding F14 (stale probability after extend/widen) recognised only by its signature: "
               "history with at least one expansion call, reported value LOWER than the model value"]
TOLERANCES = {"relative": 1e-8}
BUDGET = {"quick": {"shards": 8, "examples": 1000}, "thorough": {"shards": 16, "examples": 10000}}


_traced = {}
FUZZ = {"thorough": {"runs": 15000, "seed_inputs": 16, "max_len": 4096,
                     "include": ("leuvenmapmatching.matcher", "leuvenmapmatching.util", "leuvenmapmatching.map")}}


def traced_classes():
    """Subclasses of the package's matching classes, passed through the public `matching=` parameter, that only *record* when an
    entry was computed and when it was improved in place (sequence numbers). Needed to state the root cause of open finding F14
    precisely; they change no behaviour."""
    if _traced:
        return _traced
    base.load_repo()
    import itertools
    from leuvenmapmatching.matcher.simple import SimpleMatching
    from leuvenmapmatching.matcher.distance import DistanceMatching
    counter = itertools.count(1)

    def make(parent):
        class Traced(parent):
            def __init__(self, *a, **kw):
                super().__init__(*a, **kw)
                self.t_seq = next(counter)
                self.t_improved = None

            def _update_inner(self, other):
                super()._update_inner(other)
                self.t_seq = next(counter)
                self.t_improved = {"seq": self.t_seq, "cand_delayed": other.delayed, "round": self.matcher.expand_now,
                                   "after_delayed": self.delayed}
        Traced.__name__ = "Traced" + parent.__name__
        return Traced
    from leuvenmapmatching.matcher.newsonkrumm import NewsonKrummMatching
    _traced["simple"] = make(SimpleMatching)
    _traced["distance"] = make(DistanceMatching)
    _traced["nk"] = make(NewsonKrummMatching)
    return _traced


def f14_root_cause(matcher, v):
    """Open finding F14: the first mismatching entry c of the path is *stale*: its path predecessor p was improved in place after
    c was computed, and p was not re-expanded because (a) the improving candidate came from a chain of an earlier expansion round
    (it carried delayed < expand_now, which _update_inner copies), or (b) p was re-postponed by pruning right after the improvement
    and is still waiting for a wider lattice, or (d) c is a non-emitting state whose recomputed candidate was rejected by the
    closest-so-far filter (p was scheduled and re-expanded: p.delayed equals the round of its improvement), or (c, only with avoid_goingback) p was re-expanded but the recomputed value is lower
    than the stale one, which therefore survives update()."""
    k = v.details.get("index")
    lb = matcher.lattice_best
    if not k or not lb or k >= len(lb):
        return False
    c, p = lb[k], lb[k - 1]
    imp = getattr(p, "t_improved", None)
    if imp is None or not imp["seq"] > getattr(c, "t_seq", 1 << 60):
        return False
    # The stale value was left behind by the *documented* bookkeeping: the improved predecessor took over the scheduling of the
    # improving candidate (_update_inner: self.delayed = m_other.delayed). Every mechanism observed on the unchanged tree does:
    #   (a) the candidate came from a non-emitting chain of an earlier round (cand_delayed < round): p is not re-expanded;
    #   (b) pruning re-postpones p right after the improvement; (c) with avoid_goingback the recomputed successor is worse than
    #   the stale value and loses in update(); (d) the recomputed successor is dropped by the best/closest-so-far table of the
    #   non-emitting search, which is rebuilt (and differs) in every round.
    # A change that breaks that bookkeeping itself (e.g. keeping min(old, new)) does not satisfy the predicate and is reported.
    return imp.get("after_delayed") == imp["cand_delayed"]


def check_case(case, ctx):
    state = {"n_checked": 0}
    fam = case["config"]["family"] if case["config"]["family"] in ("distance", "nk") else "simple"
    case = dict(case, config=dict(case["config"], matching=traced_classes()[fam]))

    def after(matcher, op, states, idx, cur):
        if states is None:
            return
        expansions = state.get("expansions", 0) + (1 if op[0] != "match" else 0)
        state["expansions"] = expansions
        try:
            audit.replay_path(matcher, case, tol=1e-8, trace=case["trace"][:cur])
        except Violation as v:
            if (v.clause in ("logprob", "logprob_ne") and expansions >= 1 and f14_root_cause(matcher, v) and
                    ctx.known("F14", "after extend/widen a path entry keeps a log-probability computed from a predecessor that was "
                                     "later improved in place and not re-expanded")):
                state["kf"] = True
                return
            raise
        state["n_checked"] += 1

    matcher, res, cur, applied = common.apply_history(case, after=after)
    lb = matcher.lattice_best or []
    classes = ["family:" + case["config"]["family"], "gen:" + case.get("gen", "?"), "ops:%d" % min(len(applied), 3)]
    if case.get("linked"):
        classes.append("linked-edges")
        sk = [m.shortkey for m in lb]
        if any(a != b and a[1] != b[0] for a, b in zip(sk, sk[1:])):
            classes.append("jump-to-linked-edge-on-path")
    run = 0
    for a, b in zip(lb, lb[1:]):
        if b.obs_ne:
            run = max(run, b.obs_ne)
        if a.obs_ne and not b.obs_ne:
            classes.append("emitting-after-ne")
    if run:
        classes.append("ne-run")
    if run >= 2:
        classes.append("ne-run>=2")
    if case["config"].get("avoid_goingback"):
        classes.append("avoid_goingback")
    if state.get("kf"):
        classes.append("excluded:F14")
    case = dict(case, config={k: v for k, v in case["config"].items() if k != "matching"})
    ctx.record(case, len({m.shortkey for m in lb}) >= 2 and not state.get("kf"), sorted(set(classes)),
               base.canon(matcher, res[0], res[1]) if res else None)


def _reported_lower(v):
    import re
    m = re.search(r"reported log-probability (\S+), the model assigns (\S+) to", v.msg)
    return bool(m) and float(m.group(1)) < float(m.group(2))


def strategy(tier):
    sz = gen.sizes(tier)

    @st.composite
    def _s(draw):
        if draw(st.integers(0, 4)) == 0:
            # narrow width + non-emitting states + prefix / extend / widen: the shape in which re-activation matters
            if draw(st.booleans()):
                case = draw(gen.ne_case(max_nodes=sz["max_nodes"], max_len=sz["max_len"], width=None))
                case["gen"] = "ne-friendly+narrow-history"
            else:
                case = draw(gen.match_case(max_nodes=max(9, sz["max_nodes"]), max_len=sz["max_len"], min_len=3,
                                           graph_kw={"families": ["mesh"]}, trace_kw={"kinds": ["walk", "walk", "sparse", "random"]},
                                           config_kw={"width": None, "cutoffs": False}))
                case["gen"] = "mesh+narrow-history"
            n = len(case["trace"])
            w = draw(st.sampled_from([1, 1, 2, 3]))
            case["config"]["max_lattice_width"] = w
            ops = [["match", draw(st.integers(1, max(1, n - 1)))]]
            for _ in range(draw(st.integers(1, 4))):
                k = draw(st.sampled_from(["extend", "widen", "widen", "rematch"]))
                if k == "extend":
                    ops.append(["extend", draw(st.integers(2, n))])
                elif k == "widen":
                    w += draw(st.integers(0, 2))
                    ops.append(["widen", w])
                else:
                    ops.append(["rematch"])
            case["ops"] = ops
            return case
        case = draw(common.mixed_case(tier, ne_share=4, min_len=2, families=base.FAMILIES4))
        if gen.chance(draw, 2) and case["config"]["family"] != "simple_n":
            # linked parallel edges: moves between edges that share no node (not-connected penalty / distances of such a move)
            case["linked"] = draw(common.linked_pairs(case["graph"]))
        if draw(st.integers(0, 2)) == 0:
            case["ops"] = draw(common.history_ops(len(case["trace"])))
            if case["config"].get("max_lattice_width") is None and draw(st.booleans()):
                case["config"]["max_lattice_width"] = draw(st.sampled_from([1, 2, 3]))
        else:
            case["ops"] = [["match", len(case["trace"])]]
        case = draw(common.maybe_decoy(case, share=2))
        return case
    return _s()
