"""C12 — Map backends are interchangeable.

Oracle: differential — the same nodes and directed edges loaded into InMemMap and SqliteMap must answer alike
(and like the generating model), and the same edge-based matcher must give the same index and probability."""
import shutil
import tempfile

from hypothesis import strategies as st

from .. import audit, base, gen
from ..base import Violation

RULE = ("cases: (integer-labelled planar or lat/lon graph, box, trace, edge-based configuration with unbounded start radius); "
        "boxes drawn on the coordinate lattice so that nodes lie exactly on box borders; 40 % of the SQLite maps loaded call by call "
        "(per-call no_index / no_commit, repeated nodes and edges, re-index calls in between); non-trivial = >=3 nodes, >=2 edges "
        "and the box is neither empty nor full; distinct = case JSON")
ASSUMPTIONS = ["integer labels; graphs without self-listed neighbours (an in-memory artefact the statement excepts)",
               "all_edges is compared without a box (the statement says 'full edge listing')",
               "matching compared on index and best probability (1e-9), paths may differ among equally probable alternatives",
               "label sets whose edge ids collide under hash((a, b)) (e.g. -1 and -2) are an open finding (KF-C12-HASH) and excluded"]
TOLERANCES = {"logprob": "1e-9 relative", "coordinates": "exact"}
BUDGET = {"quick": {"shards": 8, "examples": 700}, "thorough": {"shards": 16, "examples": 6000}}


def _tmp():
    import os
    return "/dev/shm" if os.path.isdir("/dev/shm") and os.access("/dev/shm", os.W_OK) else None


def t2(p):
    return (float(p[0]), float(p[1]))


def hash_collision(edges):
    seen = {}
    for e in edges:
        h = hash(tuple(e))
        if h in seen and seen[h] != e:
            return (seen[h], e)
        seen[h] = e
    return None


def check_case(case, ctx):
    g = case["graph"]
    latlon = case["metric"] == "latlon"
    edges = base.graph_edges(g)
    classes = [case["metric"], "labels:" + case.get("label_kind", "int")]
    col = hash_collision(edges)
    if col is not None:
        if ctx.known("KF-C12-HASH", "SqliteMap derives edge ids from hash((a, b)): distinct edges with colliding hashes "
                                    "(labels -1 and -2) are lost or rejected"):
            ctx.record(case, False, classes + ["excluded:KF-C12-HASH"])
            return
    loc = {n[0]: t2(n[1]) for n in g}
    adj = {n[0]: [x for x in n[2] if x != n[0]] for n in g}
    d = tempfile.mkdtemp(prefix="lmmv_c12_", dir=_tmp())
    try:
        im = base.mk_inmem(g, latlon=latlon)
        try:
            sm = base.mk_sqlite(g, d, latlon=latlon, plan=case.get("load_plan"))
        except Exception as e:  # noqa
            if base.is_repo_exception(e) or type(e).__module__.startswith("sqlite3"):
                raise Violation("load", f"loading the graph into SqliteMap raised {type(e).__name__}: {e}")
            raise
        try:
            with base.quiet():
                compare_maps(case, im, sm, loc, adj, edges)
                res = compare_matching(case, im, sm, ctx)
        finally:
            sm.db.close()
    finally:
        shutil.rmtree(d, ignore_errors=True)
    box = case["box"]
    inside = [l for l, p in loc.items() if box[0] <= p[0] <= box[2] and box[1] <= p[1] <= box[3]]
    nontrivial = len(loc) >= 3 and len(edges) >= 2 and 0 < len(inside) < len(loc)
    if any(p[0] in (box[0], box[2]) or p[1] in (box[1], box[3]) for p in loc.values()):
        classes.append("node-on-box-border")
    classes.append("match:" + res)
    if case.get("load_plan"):
        classes.append("sqlite-loaded-call-by-call")
        if any(o[0] == "node_again" for o in case["load_plan"]):
            classes.append("load:repeated-node")
        ee = [(o[1], o[2]) for o in case["load_plan"] if o[0] == "edge"]
        if len(set(ee)) < len(ee):
            classes.append("load:repeated-edge")
    ctx.record(case, nontrivial, classes, {"nodes": len(loc), "edges": len(edges), "in_box": len(inside)})


def compare_maps(case, im, sm, loc, adj, edges):
    pk = base.pkg
    if pk(im.size) != len(loc) or pk(sm.size) != len(loc):
        raise Violation("size", f"size: inmem {im.size()}, sqlite {sm.size()}, model {len(loc)}")
    li, ls = sorted(pk(im.labels)), sorted(pk(sm.labels))
    if li != sorted(loc) or ls != sorted(loc):
        raise Violation("labels", f"labels: inmem {li}, sqlite {ls}, model {sorted(loc)}")
    for lab, p in loc.items():
        ci, cs = t2(pk(im.node_coordinates, lab)), t2(pk(sm.node_coordinates, lab))
        if ci != p or cs != p:
            raise Violation("node_coordinates", f"node {lab}: inmem {ci}, sqlite {cs}, model {p}")
        ni = [(l, t2(q)) for l, q in pk(im.nodes_nbrto, lab)]
        if (lab, p) in ni:
            ni.remove((lab, p))  # the in-memory map also lists the node itself
        ns = [(l, t2(q)) for l, q in pk(sm.nodes_nbrto, lab)]
        want = sorted((l, loc[l]) for l in set(adj[lab]))
        if sorted(ni) != want or sorted(ns) != want:
            raise Violation("nodes_nbrto", f"node {lab}: inmem {sorted(ni)}, sqlite {sorted(ns)}, model {want}")
    for (a, b) in edges:
        ei = [(l1, t2(p1), l2, t2(p2)) for l1, p1, l2, p2 in pk(im.edges_nbrto, (a, b))]
        ei = [e for e in ei if e[0] != e[2]]  # (b, b): the self entry again
        es = [(l1, t2(p1), l2, t2(p2)) for l1, p1, l2, p2 in pk(sm.edges_nbrto, (a, b))]
        want = sorted((b, loc[b], c, loc[c]) for c in set(adj[b]))
        if sorted(ei) != want or sorted(es) != want:
            raise Violation("edges_nbrto", f"edge {(a, b)}: inmem {sorted(ei)}, sqlite {sorted(es)}, model {want}")
    ai = sorted((a, t2(pa), b, t2(pb)) for a, pa, b, pb in pk(lambda: list(im.all_edges())))
    as_ = sorted((a, t2(pa), b, t2(pb)) for a, pa, b, pb in pk(lambda: list(sm.all_edges())))
    want = sorted((a, loc[a], b, loc[b]) for a, b in edges)
    if ai != want or as_ != want:
        raise Violation("all_edges", f"all_edges: inmem {ai}, sqlite {as_}, model {want}")
    ys, xs = [p[0] for p in loc.values()], [p[1] for p in loc.values()]
    wantbb = (min(ys), min(xs), max(ys), max(xs))
    bi, bs = tuple(pk(im.bb)), tuple(pk(sm.bb))
    if bi != wantbb or bs != wantbb:
        raise Violation("bb", f"bounding box: inmem {bi}, sqlite {bs}, model {wantbb}")
    box = tuple(case["box"])
    wi = sorted((l, t2(p)) for l, p in pk(lambda: list(im.all_nodes(bb=box))))
    ws = sorted((l, t2(p)) for l, p in pk(lambda: list(sm.all_nodes(bb=box))))
    want = sorted((l, p) for l, p in loc.items() if box[0] <= p[0] <= box[2] and box[1] <= p[1] <= box[3])
    if wi != want or ws != want:
        raise Violation("all_nodes_bb", f"all_nodes(bb={box}): inmem {wi}, sqlite {ws}, model {want}")
    wi = sorted((l, t2(p)) for l, p in pk(lambda: list(im.all_nodes())))
    ws = sorted((l, t2(p)) for l, p in pk(lambda: list(sm.all_nodes())))
    if wi != sorted(loc.items()) or ws != sorted(loc.items()):
        raise Violation("all_nodes", f"all_nodes(): inmem {wi}, sqlite {ws}")


def compare_matching(case, im, sm, ctx=None):
    if not case["trace"]:
        return "none"
    path = base.to_path(case["trace"])
    out, trailing_ne, matchers = [], False, []
    for m in (im, sm):
        matcher = base.mk_matcher(m, case["config"])
        matchers.append(matcher)
        states, idx = base.pkg(matcher.match, path)
        lb = matcher.lattice_best
        out.append((idx, len(states) > 0, float(lb[-1].logprob) if lb else None))
        trailing_ne |= bool(lb) and lb[-1].obs_ne != 0
    a, b = out
    if (a[0] == b[0] and a[1] == b[1] and not base.close(a[2], b[2], 1e-9) and trailing_ne and ctx is not None and
            ctx.known("KF-NE-ORDER", "after an early stop the best path ends in a run of non-emitting states whose content depends on the "
                                     "order in which neighbours are listed (the two backends list them differently)")):
        return "excluded:KF-NE-ORDER"
    if (a[0] == b[0] and a[1] == b[1] and not base.close(a[2], b[2], 1e-9) and case["config"].get("non_emitting_states") and
            ctx is not None):
        why = audit.ne_revisit_tie(matchers[0], matchers[1])
        if why and ctx.known("KF-NE-ORDER", "the no-revisit filter of a non-emitting run follows the one chain kept among equally probable "
                                            "predecessors; which one is kept depends on the listing order (the two backends list differently)"):
            return "excluded:KF-NE-ORDER"
    if a[0] != b[0] or a[1] != b[1] or not base.close(a[2], b[2], 1e-9):
        raise Violation("matching", f"same matcher: inmem gives (idx, matched, logprob)={a}, sqlite {b}")
    return "empty" if not a[1] else ("full" if a[0] == len(path) - 1 else "partial")


def strategy(tier):
    sz = gen.sizes(tier)

    @st.composite
    def _s(draw):
        kind = draw(st.sampled_from(["int", "int", "int", "negint"]))
        g = draw(gen.planar_graph(max_nodes=sz["max_nodes"], label_kinds=(kind,), self_listed=False,
                                  families=["grid", "grid", "float", "chain", "oneway", "twocomp"]))
        metric = draw(st.sampled_from(["planar", "planar", "planar", "latlon"]))
        t = draw(gen.trace_on(g, max_len=sz["max_len"], min_len=1))
        cfg = draw(gen.config(families=("simple", "distance", "nk")))
        cfg["max_dist_init"] = 1e9 if cfg.get("max_dist") else None
        ys = sorted({n[1][0] for n in g})
        xs = sorted({n[1][1] for n in g})
        def corner(vals):
            v = gen.pick(draw, vals)
            return v + gen.pick(draw, [0.0, 0.0, -0.25, 0.25])
        y0, y1 = sorted([corner(ys), corner(ys)])
        x0, x1 = sorted([corner(xs), corner(xs)])
        case = {"graph": g, "trace": t, "config": cfg, "metric": metric, "box": [y0, x0, y1, x1], "label_kind": kind}
        if metric == "latlon":
            org = draw(gen.origin())
            unit = draw(st.sampled_from([10.0, 50.0]))
            case["graph"] = gen.place_graph(g, org, unit)
            case["trace"] = gen.place_trace(t, org, unit)
            case["config"] = gen.scale_config(cfg, unit)
            from .. import geomsph as gs
            lo, hi = gs.local_to_latlon(org, y0 * unit, x0 * unit), gs.local_to_latlon(org, y1 * unit, x1 * unit)
            case["box"] = [lo[0], lo[1], hi[0], hi[1]]
        if gen.chance(draw, 4):
            # the SQLite map is loaded call by call (per-call flags, repeated nodes/edges, re-index calls) instead of in bulk
            case["load_plan"] = draw(gen.load_plan(case["graph"]))
        return case
    return _s()
