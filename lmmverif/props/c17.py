"""C17 — Matching is total on valid input and ignores timestamps.

Oracle: (a) validity: match() returns a (list, int) pair and raises nothing; (b) metamorphic: the same trace given as
(y, x, t) triples produces exactly the canonical result of the pairs."""
from hypothesis import strategies as st

from .. import base, gen
from ..base import Violation

RULE = ("cases: (graph, trace, times, configuration, metric); graphs may contain duplicate node locations / zero-length "
        "edges and self-listed neighbours; traces include observations exactly on nodes / edge interiors, repeats, "
        "outliers; noise values incl. 0.01 and 100; cut-offs, widths, non-emitting on/off; both metrics (lat/lon by "
        "placing the planar case at a drawn origin, 5-100 m per unit); non-trivial = non-empty result; distinct = case JSON")
ASSUMPTIONS = ["finite map (every neighbour label is a node), non-empty trace, finite coordinates, |lat| <= 60",
               "labels ints or short strings without '-'/'_'", "InMemMap without index; SqliteMap for a fifth of the integer-labelled cases"]
TOLERANCES = {"pairs_vs_triples": "exact equality of index, path keys, states and log-probability"}
BUDGET = {"quick": {"shards": 8, "examples": 800}, "thorough": {"shards": 16, "examples": 7000}}
FUZZ = {"thorough": {"runs": 15000, "seed_inputs": 16, "max_len": 4096,
                     "include": ("leuvenmapmatching.matcher", "leuvenmapmatching.util", "leuvenmapmatching.map")}}


def build(case, trace, tmpdir=None):
    latlon = case["metric"] == "latlon"
    g, t, cfg = case["graph"], trace, case["config"]
    if latlon:
        org, unit = case["origin"], case["unit"]
        g = gen.place_graph(case["graph"], org, unit)
        t = gen.place_trace(trace, org, unit)
        cfg = gen.scale_config(case["config"], unit)
    if case.get("backend") == "sqlite":
        return base.mk_sqlite(g, tmpdir, latlon=latlon), base.to_path(t), cfg
    return base.mk_inmem(g, latlon=latlon), base.to_path(t), cfg


def run(case, trace):
    import shutil
    import tempfile
    tmpdir = None
    if case.get("backend") == "sqlite":
        import os
        tmpdir = tempfile.mkdtemp(prefix="lmmv_c17_", dir="/dev/shm" if os.path.isdir("/dev/shm") else None)
    try:
        with base.quiet():
            return _run(case, trace, tmpdir)
    finally:
        if tmpdir:
            shutil.rmtree(tmpdir, ignore_errors=True)


def _run(case, trace, tmpdir):
    m, path, cfg = build(case, trace, tmpdir)
    try:
        return _match(case, m, path, cfg)
    finally:
        if tmpdir:
            m.db.close()


def _match(case, m, path, cfg):
    matcher = base.pkg(base.mk_matcher, m, cfg)
    res = base.pkg(matcher.match, path, unique=case.get("unique", False))
    if not (isinstance(res, tuple) and len(res) == 2):
        raise Violation("shape", f"match returned {res!r}, expected a (state list, index) pair")
    states, idx = res
    if not isinstance(states, list) or isinstance(idx, bool) or not isinstance(idx, int):
        raise Violation("shape", f"match returned ({states!r}, {idx!r}), expected (list, int)")
    return base.canon(matcher, states, idx)


def check_case(case, ctx):
    pairs = [p[:2] for p in case["trace"]]
    triples = [[p[0], p[1], t] for p, t in zip(pairs, case["times"])]
    r1 = run(case, pairs)
    r2 = run(case, triples)
    if r1 != r2:
        raise Violation("timestamps", f"pairs give {r1}, (lat, lon, time) triples give {r2}")
    cfg = case["config"]
    classes = [case["metric"], "backend:" + case.get("backend", "inmem"), "family:" + cfg["family"], "ne:%s" % bool(cfg.get("non_emitting_states")),
               "trace:" + case.get("trace_kind", "?")]
    locs = [tuple(n[1]) for n in case["graph"]]
    if len(set(locs)) < len(locs):
        classes.append("duplicate-locations")
    if r1["n_emit"]:
        classes.append("non-empty")
        if any(k[-1] != 0 for k in r1["keys"]):
            classes.append("ne-in-path")
    ctx.record(case, r1["n_emit"] > 0, classes, r1)


def strategy(tier):
    sz = gen.sizes(tier)

    @st.composite
    def _s(draw):
        dup = draw(st.integers(0, 3)) == 0
        g = draw(gen.planar_graph(max_nodes=sz["max_nodes"], dup_locations=dup))
        kind = draw(st.sampled_from(["exact", "exact", "repeat", "walk", "sparse", "outlier", "random"]))
        t = draw(gen.trace_on(g, max_len=sz["max_len"], kinds=[kind]))
        cfg = draw(gen.config(families=base.FAMILIES4))
        if draw(st.integers(0, 3)) == 0:
            cfg["obs_noise"] = draw(st.sampled_from([0.01, 100.0, 0.05, 5.0]))
        metric = draw(st.sampled_from(["planar", "planar", "latlon"]))
        case = {"graph": g, "trace": t, "config": cfg, "metric": metric, "trace_kind": kind,
                "times": [float(draw(st.integers(0, 10 ** 9))) + 0.5 * i for i in range(len(t))],
                "unique": draw(st.booleans())}
        if type(g[0][0]) is int and all(n[0] >= 0 for n in g) and draw(st.integers(0, 4)) == 0:
            case["backend"] = "sqlite"  # duplicate locations give zero-length edges there too
        if metric == "latlon":
            case["origin"] = draw(gen.origin())
            case["unit"] = draw(st.sampled_from([5.0, 20.0, 100.0]))
        return case
    return _s()
