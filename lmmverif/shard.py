"""One Hypothesis shard: python -m lmmverif.shard <PID> <tier> <seed> <shard> <nshards> <out.json> [examples]"""
import json
import os
import sys
import traceback

from . import base
from .base import Violation, HarnessError


def is_repo_exception(exc):
    tb = traceback.extract_tb(exc.__traceback__)
    return bool(tb) and any(os.path.abspath(fr.filename).startswith(base.REPO + os.sep) for fr in tb)


def exc_signature(exc):
    tb = traceback.extract_tb(exc.__traceback__)
    inner = None
    for fr in tb:
        if os.path.abspath(fr.filename).startswith(base.REPO + os.sep):
            inner = fr
    where = f"{os.path.relpath(inner.filename, base.REPO)}:{inner.name}" if inner else "?"
    return f"{type(exc).__name__}@{where}"


def run(pid, tier, seed, shard, nshards, out, examples=None):
    base.load_repo()
    from hypothesis import given, settings, seed as hseed, HealthCheck, Phase
    from .runner import load_prop
    mod = load_prop(pid)
    ctx = base.Ctx(pid, tier)
    budget = mod.BUDGET[tier]
    n = examples if examples is not None else budget["examples"]
    state = {"last": None, "calls": 0}

    strategy = mod.strategy(tier, shard, nshards) if getattr(mod, "SHARD_AWARE", False) else mod.strategy(tier)

    @hseed(seed * 1000003 + shard)
    @settings(max_examples=n, database=None, deadline=None, report_multiple_bugs=False,
              suppress_health_check=list(HealthCheck), phases=(Phase.generate, Phase.shrink),
              derandomize=False, print_blob=False)
    @given(strategy)
    def prop(case):
        state["calls"] += 1
        try:
            mod.check_case(case, ctx)
        except Violation as v:
            state["last"] = {"case": base.jsonable(case), "clause": v.clause, "msg": v.msg}
            raise

    failure = None
    try:
        prop()
    except Violation:
        failure = state["last"]
    except BaseException as e:  # hypothesis wraps some failures (Flaky, MultipleFailures)
        if isinstance(e, (KeyboardInterrupt, SystemExit)):
            raise
        inner = e
        seen = 0
        while inner is not None and not isinstance(inner, Violation) and seen < 10:
            excs = getattr(inner, "exceptions", None)
            inner = excs[0] if excs else (inner.__cause__ or inner.__context__)
            seen += 1
        if isinstance(inner, Violation) and state["last"] is not None:
            failure = state["last"]
            failure["msg"] += f" [reported through {type(e).__name__}]"
        else:
            traceback.print_exc()
            raise HarnessError(f"unexpected exception in shard: {type(e).__name__}: {e}")
    if failure is not None:
        failure["origin"] = f"hypothesis seed={seed} shard={shard}/{nshards} tier={tier}"
    res = ctx.dump()
    res["failure"] = failure
    res["hyp_examples"] = state["calls"]
    res["evaluations"] = max(res["evaluations"], state["calls"])
    with open(out, "w") as f:
        json.dump(res, f)


if __name__ == "__main__":
    a = sys.argv[1:]
    try:
        run(a[0], a[1], int(a[2]), int(a[3]), int(a[4]), a[5], int(a[6]) if len(a) > 6 else None)
    except HarnessError as e:
        print(f"HARNESS-ERROR {e}", file=sys.stderr)
        sys.exit(2)
