"""Validity predicates and the path replay shared by C02, C03, C04, C05, C09 (all against the generating
model / the independent reference, never against the map object's own idea of the graph)."""
import math

from . import base, geom2d as g2, hmmref
from .base import Violation


def emitting(lb):
    return [m for m in lb if m.obs_ne == 0]


# ---- C03 ---------------------------------------------------------------------------------------

def audit_alignment(matcher, trace, states, idx, unique):
    lb = matcher.lattice_best
    n = len(trace)
    if not isinstance(states, list):
        raise Violation("states.type", f"state list is {states!r}")
    if isinstance(idx, bool) or not isinstance(idx, int):
        raise Violation("index.type", f"index is {idx!r}")
    if not states:
        if idx != 0:
            raise Violation("empty.index", f"empty state list returned with index {idx}")
        return "empty"
    if not lb:
        raise Violation("path.missing", f"states {states} returned but the matcher has no best path")
    if lb[0].obs != 0 or lb[0].obs_ne != 0:
        raise Violation("path.start", f"best path starts at {lb[0].key}, not at the first observation")
    em = emitting(lb)
    if [m.obs for m in em] != list(range(len(em))):
        raise Violation("path.emitting", f"emitting states visit observations {[m.obs for m in em]}")
    for a, b in zip(lb, lb[1:]):
        if b.obs_ne == 0:
            if b.obs != a.obs + 1:
                raise Violation("path.order", f"{a.key} is followed by emitting {b.key}")
        elif not (b.obs == a.obs and b.obs_ne == a.obs_ne + 1):
            raise Violation("path.order", f"{a.key} is followed by non-emitting {b.key}")
    sk = [m.shortkey for m in lb]
    want = [s for i, s in enumerate(sk) if i == 0 or s != sk[i - 1]] if unique else sk
    if states != want:
        raise Violation("states.path", f"returned states {states} are not the best path's states {want} (unique={unique})")
    if idx != em[-1].obs:
        raise Violation("index.last", f"returned index {idx}, last observation with an emitting state on the path is {em[-1].obs}")
    if not (0 <= idx < n):
        raise Violation("index.range", f"index {idx} for a trace of {n} observations")
    live_last = any(not m.stop for m in matcher.lattice[n - 1].values(0))
    if (idx == n - 1) != live_last:
        raise Violation("index.complete", f"index {idx} of {n - 1} but the last column "
                                          f"{'holds' if live_last else 'holds no'} live emitting candidate")
    if idx < n - 1 and any(not m.stop for m in matcher.lattice[idx + 1].values(0)):
        raise Violation("index.truthful", f"index {idx} returned although observation {idx + 1} has a live emitting candidate")
    if not any(not m.stop for m in matcher.lattice[idx].values(0)):
        raise Violation("index.truthful", f"index {idx} returned but that observation has no live emitting candidate")
    if idx == n - 1:
        return "full"
    return "stop@%s" % ("0" if idx == 0 else "1" if idx == 1 else ("last" if idx == n - 2 else "middle"))


# ---- C04 ---------------------------------------------------------------------------------------

def audit_walk(matcher, graph, linked=None, jumps=False):
    lb = matcher.lattice_best
    if not lb:
        return set()
    loc = {n[0]: tuple(n[1]) for n in graph}
    adj = {n[0]: list(n[2]) for n in graph}
    E = set(base.graph_edges(graph))
    link = {}
    for a, b in (linked or []):
        link.setdefault(tuple(a), set()).add(tuple(b))
    classes = set()
    sk = [m.shortkey for m in lb]
    for m in lb:
        s = m.shortkey
        if isinstance(s, tuple):
            if s not in E:
                raise Violation("state.edge", f"state {s} is not a directed edge of the map")
            if tuple(m.edge_m.p1) != loc[s[0]] or tuple(m.edge_m.p2) != loc[s[1]]:
                raise Violation("state.coords", f"state {s} carries coordinates {m.edge_m.p1}, {m.edge_m.p2}")
        else:
            if s not in loc:
                raise Violation("state.node", f"state {s!r} is not a node of the map")
    for (a, ma), (b, mb) in zip(zip(sk, lb), zip(sk[1:], lb[1:])):
        if a == b:
            continue
        ea, eb = isinstance(a, tuple), isinstance(b, tuple)
        if ea and eb:
            if a[1] == b[0]:
                ok = True
                if b == (a[1], a[0]):
                    classes.add("u-turn")
            elif b in link.get(a, ()):
                ok = True
                classes.add("linked-edge")
            else:
                ok = False
        elif ea:
            ok = (b == a[1])
        elif eb:
            ok = (b[0] == a and b in E)
        else:
            ok = b in adj[a]
        if not ok and not jumps:
            raise Violation("move", f"{a} -> {b} is not a move the map offers")
        if not ok:
            classes.add("jump")
    if not link and not jumps:
        try:
            on = matcher.path_pred_onlynodes
        except Exception as e:  # noqa
            if base.is_repo_exception(e):
                raise Violation("onlynodes.raises", f"path_pred_onlynodes raised {type(e).__name__}: {e}")
            raise
        for x, y in zip(on, on[1:]):
            if x == y:
                raise Violation("onlynodes.repeat", f"nodes-only view {on} repeats {x}")
            if y not in adj.get(x, ()) and x not in adj.get(y, ()):
                raise Violation("onlynodes.adjacent", f"nodes-only view {on}: {x} and {y} are not adjacent")
        for x in on:
            if x not in loc:
                raise Violation("onlynodes.node", f"nodes-only view {on}: {x!r} is not a node")
    if any(m.obs_ne for m in lb):
        classes.add("ne-in-path")
    return classes


# ---- C02 / C05: replay of the reported path under the reference model --------------------------

def _on_seg(p, a, b, t, tol):
    return g2.dist(p, g2.at(a, b, t)) <= tol and -1e-9 <= t <= 1 + 1e-9


def replay_path(matcher, case, tol=1e-8, check_prob=True, trace=None):
    """Recompute every model quantity along matcher.lattice_best. Raises Violation on the first mismatch.
    Returns the list of records."""
    lb = matcher.lattice_best
    if not lb:
        return []
    trace = trace if trace is not None else case["trace"]
    model = hmmref.Model(case["graph"], case["config"])
    loc = model.loc
    fam_dist = case["config"]["family"] == "distance"
    scale = max([1.0] + [abs(c) for p in loc.values() for c in p])
    gt = 1e-9 * scale  # geometric tolerance
    R = []
    for k, m in enumerate(lb):
        s = m.shortkey
        edge = isinstance(s, tuple)
        if (edge and (s[0] not in loc or s[1] not in loc)) or (not edge and s not in loc):
            raise Violation("state.unknown", f"state {s} not in the map")
        p1 = loc[s[0]] if edge else loc[s]
        p2 = loc[s[1]] if edge else None
        ne = m.obs_ne != 0
        r = {"s": s, "edge": edge, "ne": ne, "d_o": 0.0, "d_s": 0.0}
        if not ne:
            o = tuple(trace[m.obs][:2])
            r["opi"] = o
            if edge:
                pi, ti = g2.proj(o, p1, p2)
                d = g2.dist(pi, o)
                if g2.dist(pi, m.edge_m.pi) > gt + tol * max(1.0, d):
                    raise Violation("position", f"{m.key}: reported position {m.edge_m.pi} on the edge, nearest point is {pi}")
                if abs(ti - m.edge_m.ti) > 1e-7:
                    raise Violation("position", f"{m.key}: reported relative position {m.edge_m.ti}, nearest point is at {ti}")
            else:
                pi, ti, d = p1, 0.0, g2.dist(p1, o)
            r.update(pi=pi, ti=ti, d=d)
        else:
            if m.obs + 1 >= len(trace):
                raise Violation("ne.beyond", f"{m.key}: non-emitting state after the last observation")
            o1, o2 = tuple(trace[m.obs][:2]), tuple(trace[m.obs + 1][:2])
            if edge:
                d = g2.seg_seg(p1, p2, o1, o2)
                pi, ti, opi, oti = m.edge_m.pi, m.edge_m.ti, m.edge_o.pi, m.edge_o.ti
                wt = gt + tol * max(1.0, d)
                if not _on_seg(pi, p1, p2, ti, wt):
                    raise Violation("ne.witness_map", f"{m.key}: reported map point {pi} is not at {ti} of the edge")
                if not _on_seg(opi, o1, o2, oti, wt):
                    raise Violation("ne.witness_obs", f"{m.key}: reported observation point {opi} is not at {oti} of the observation segment")
                if abs(g2.dist(pi, opi) - m.dist_obs) > wt:
                    raise Violation("ne.witness_dist", f"{m.key}: witnesses are {g2.dist(pi, opi)} apart, reported distance {m.dist_obs}")
                r.update(pi=tuple(pi), ti=ti, d=d, opi=tuple(opi))
            else:
                opi, _ = g2.proj(p1, o1, o2)
                d = g2.dist(opi, p1)
                r.update(pi=p1, ti=0.0, d=d, opi=opi)
        if abs(r["d"] - m.dist_obs) > gt + tol * max(1.0, r["d"]):
            raise Violation("dist_obs", f"{m.key}: reported observation distance {m.dist_obs}, true distance {r['d']}")
        em = model.emis(r["d"], ne)
        if k == 0:
            r.update(lp=em, lpe=em, lpne=0.0, length=1, tr=0.0)
        else:
            p = R[-1]
            pp = R[-2] if k >= 2 else None
            tr = model.trans(p, r, pp)
            delta = tr + em
            if not ne:
                lp = p["lp"] + delta
                r.update(lp=lp, lpe=lp, lpne=0.0, length=p["length"] + 1, tr=tr)
            else:
                lpe = p["lpe"] + model.nef
                lpne = min(p["lpne"], delta)
                r.update(lp=lpe + lpne, lpe=lpe, lpne=lpne, length=p["length"], tr=tr)
        R.append(r)
        if check_prob:
            if not base.close(r["lp"], float(m.logprob), tol):
                raise Violation("logprob" + ("_ne" if ne else ""),
                                f"{m.key}: reported log-probability {float(m.logprob)}, the model assigns {r['lp']} to this path prefix "
                                f"(transition {r['tr']}, emission {em})", index=k, reported=float(m.logprob), model=r["lp"])
            if r["length"] != m.length:
                raise Violation("length", f"{m.key}: reported length {m.length}, path prefix has {r['length']} emitting states")
            if fam_dist and k:
                if not base.close(r["d_o"], m.d_o, tol, gt) or not base.close(r["d_s"], m.d_s, tol, gt):
                    raise Violation("distances", f"{m.key}: reported d_o={m.d_o}, d_s={m.d_s}; model d_o={r['d_o']}, d_s={r['d_s']}")
    return R


# ---- C05 ---------------------------------------------------------------------------------------

def audit_cutoffs(matcher, case, records):
    lb = matcher.lattice_best
    cfg = case["config"]
    max_dist = cfg.get("max_dist") or math.inf
    max_dist_init = cfg.get("max_dist_init") or max_dist
    min_lpn = math.log(cfg["min_prob_norm"]) if cfg.get("min_prob_norm") else -math.inf
    for m, r in zip(lb, records):
        first = m.obs == 0 and m.obs_ne == 0
        for d, what in ((m.dist_obs, "reported"), (r["d"], "true")):
            if first and not (d < max_dist_init or abs(d - max_dist_init) <= 1e-9):
                raise Violation("max_dist_init", f"{m.key}: {what} distance {d} not below the initial maximum {max_dist_init}")
            if d > max_dist + 1e-9:
                raise Violation("max_dist", f"{m.key}: {what} distance {d} exceeds max_dist {max_dist}")
        for lp, what in ((float(m.logprob), "reported"), (r["lp"], "model")):
            if lp / r["length"] < min_lpn - 1e-9:
                raise Violation("min_prob_norm", f"{m.key}: {what} normalised log-probability {lp / r['length']} below {min_lpn}")


# ---- C09 ---------------------------------------------------------------------------------------

def audit_lattice(matcher):
    allm = {}
    n_entries = 0
    for i, ne, key, m in base.lattice_entries(matcher):
        allm[id(m)] = (i, ne, key, m)
    for i, ne, key, m in base.lattice_entries(matcher):
        n_entries += 1
        if m.obs != i or m.obs_ne != ne or m.key != key:
            raise Violation("filed", f"entry {m.key} is filed under column {i}, depth {ne}, key {key}")
        if not (m.logprob <= 1e-12):
            raise Violation("probability", f"entry {key} has log-probability {m.logprob} > 0")
        if math.isnan(m.logprob):
            raise Violation("probability", f"entry {key} has log-probability NaN")
        if m.stop:
            continue
        if i == 0 and ne == 0:
            if m.length != 1:
                raise Violation("length", f"start entry {key} has length {m.length}")
            continue
        if len(m.prev) == 0:
            raise Violation("predecessor.none", f"live entry {key} has no predecessor")
        for p in m.prev:
            if id(p) not in allm:
                raise Violation("predecessor.dangling", f"predecessor {p.key} of {key} is not in the lattice")
            pi, pne, pk, _ = allm[id(p)]
            okpos = (pi == i - 1) if ne == 0 else (pi == i and pne == ne - 1)
            if ne == 0 and pi == i - 1:
                okpos = True
            if not okpos:
                raise Violation("predecessor.layer", f"predecessor {pk} of {key} is not in the directly preceding layer/column")
            if m.logprob > p.logprob + 1e-12:
                raise Violation("monotone", f"entry {key} ({m.logprob}) is more probable than its predecessor {pk} ({p.logprob})")
            want = p.length + (1 if ne == 0 else 0)
            if m.length != want:
                raise Violation("length", f"entry {key} has length {m.length}, predecessor {pk} has {p.length}")
            if p.stop:
                raise Violation("live", f"live entry {key} has a stopped predecessor {pk}")
    return n_entries


# ---- KF-NE-ORDER root cause: the no-revisit filter of non-emitting runs follows one of several equally probable chains ----

def _ne_chain_nodes(entry):
    """Nodes that BaseMatcher._node_in_prev_ne would find for a move out of `entry`: the nodes of its predecessors within
    the same observation, down to and including the emitting state the non-emitting run started from."""
    out, chain = set(), []
    cur = entry
    while True:
        prevs = list(cur.prev)
        if not prevs:
            break
        p = prevs[0]
        if p.obs != cur.obs:
            break
        out |= set(p.nodes)
        chain.append(tuple(p.key))
        if p.obs_ne == 0:
            break
        cur = p
    return out, chain


def ne_revisit_tie(m_a, m_b, ren=None, tol=1e-9):
    """Root-cause predicate of KF-NE-ORDER for two runs that ought to agree (same case, other listing order / labels /
    backend).  True iff the better best path (say of run A) leaves a non-emitting state J for a state K that run B lacks
    (or holds less probable), although B holds J with the same probability - but reached through another, equally probable
    chain whose nodes include K's end node, so that B's no-revisit filter forbade exactly the move A made.
    `ren` maps A's labels to B's.  Tries both directions.  Returns a description or None."""
    ren_ab = ren or {}
    inv = {v: k for k, v in ren_ab.items()}
    for good, bad, r in ((m_a, m_b, ren_ab), (m_b, m_a, inv)):
        path = good.lattice_best or []
        if not path or not bad.lattice_best:
            continue
        if not good.lattice_best[-1].logprob > bad.lattice_best[-1].logprob:
            continue
        mp = (lambda x, r=r: r.get(x, x))
        for i, e in enumerate(path):
            key = tuple(e.key)
            key_b = tuple(mp(x) for x in key[:-2]) + key[-2:]
            col = bad.lattice.get(e.obs) if isinstance(bad.lattice, dict) else bad.lattice[e.obs]
            layer = col.o[e.obs_ne] if col is not None and e.obs_ne < len(col.o) else {}
            eb = layer.get(key_b)
            if eb is not None and not eb.stop and base.close(float(eb.logprob), float(e.logprob), tol):
                continue
            # first state of the better path that the other run lacks or holds with another probability
            if i == 0:
                break
            j = path[i - 1]
            if j.obs_ne == 0:
                break  # the filter only applies to moves out of a non-emitting state
            jkey_b = tuple(mp(x) for x in tuple(j.key)[:-2]) + tuple(j.key)[-2:]
            jcol = bad.lattice[j.obs]
            jb = jcol.o[j.obs_ne].get(jkey_b) if j.obs_ne < len(jcol.o) else None
            if jb is None or jb.stop:
                break
            target = mp(e.nodes[-1])
            seen_bad, chain_bad = _ne_chain_nodes(jb)
            seen_good, chain_good = _ne_chain_nodes(j)
            seen_good = {mp(x) for x in seen_good}
            # both alternative predecessors of J must have been available - live, expanded (not postponed by pruning) and
            # equally probable - in BOTH runs: then the only difference is which of the two update() kept.  (If pruning or
            # anything else removed one of them in one run, that is a different cause and not this finding.)
            inv_r = {v: k for k, v in r.items()}

            def available(matcher, entry_of_other, to_matcher_labels):
                k_o = tuple(entry_of_other.key)
                k_m = tuple(to_matcher_labels(x) for x in k_o[:-2]) + k_o[-2:]
                c_m = matcher.lattice[entry_of_other.obs]
                x = c_m.o[entry_of_other.obs_ne].get(k_m) if entry_of_other.obs_ne < len(c_m.o) else None
                return (x is not None and not x.stop and x.delayed <= matcher.expand_now and
                        base.close(float(x.logprob), float(entry_of_other.logprob), tol))
            pg, pb = list(j.prev), list(jb.prev)
            if not pg or not pb or not available(bad, pg[0], mp) or not available(good, pb[0], lambda x: inv_r.get(x, x)):
                break
            if target in seen_bad and target not in seen_good:
                return (f"{tuple(j.key)} -> {key}: the other run holds {jkey_b} with the same probability via the chain "
                        f"{chain_bad} (instead of {chain_good}), which contains node {target!r}: move forbidden by the no-revisit filter")
            break
    return None
