"""Independent planar reference geometry (no code shared with the package).

Two flavours:
* float functions (`dist`, `proj`, `pt_seg`, `seg_seg`) written from the textbook definitions,
* exact rational functions (`*_exact`, on `fractions.Fraction`; every finite float converts exactly)
  used wherever a decision (is it parallel? do they intersect? which is nearer?) must not depend on
  rounding.
"""
import math
from fractions import Fraction as F


def dist(p, q):
    return math.hypot(p[0] - q[0], p[1] - q[1])


def proj(p, a, b):
    """Nearest point of segment ab to p and its parameter t in [0, 1]."""
    dx, dy = b[0] - a[0], b[1] - a[1]
    l2 = dx * dx + dy * dy
    if l2 == 0:
        return (a[0], a[1]), 0.0
    t = ((p[0] - a[0]) * dx + (p[1] - a[1]) * dy) / l2
    t = max(0.0, min(1.0, t))
    return (a[0] + t * dx, a[1] + t * dy), t


def pt_seg(p, a, b):
    q, _ = proj(p, a, b)
    return dist(p, q)


def at(a, b, t):
    return (a[0] + t * (b[0] - a[0]), a[1] + t * (b[1] - a[1]))


# ---- exact ----------------------------------------------------------------------------------

def fr(p):
    return (F(p[0]), F(p[1]))


def d2_exact(p, q):
    return (p[0] - q[0]) ** 2 + (p[1] - q[1]) ** 2


def proj_exact(p, a, b):
    """(nearest point, t) in exact arithmetic; inputs are Fraction pairs."""
    dx, dy = b[0] - a[0], b[1] - a[1]
    l2 = dx * dx + dy * dy
    if l2 == 0:
        return a, F(0)
    t = ((p[0] - a[0]) * dx + (p[1] - a[1]) * dy) / l2
    t = max(F(0), min(F(1), t))
    return (a[0] + t * dx, a[1] + t * dy), t


def pt_seg_d2_exact(p, a, b):
    q, _ = proj_exact(p, a, b)
    return d2_exact(p, q)


def _orient(a, b, c):
    return (b[0] - a[0]) * (c[1] - a[1]) - (b[1] - a[1]) * (c[0] - a[0])


def _on_seg(a, b, c):
    """c collinear with ab is known; is it inside the bounding box of ab?"""
    return (min(a[0], b[0]) <= c[0] <= max(a[0], b[0])) and (min(a[1], b[1]) <= c[1] <= max(a[1], b[1]))


def intersects_exact(a, b, c, d):
    o1, o2, o3, o4 = _orient(a, b, c), _orient(a, b, d), _orient(c, d, a), _orient(c, d, b)
    if ((o1 > 0) != (o2 > 0)) and o1 != 0 and o2 != 0 and ((o3 > 0) != (o4 > 0)) and o3 != 0 and o4 != 0:
        return True
    if o1 == 0 and _on_seg(a, b, c):
        return True
    if o2 == 0 and _on_seg(a, b, d):
        return True
    if o3 == 0 and _on_seg(c, d, a):
        return True
    if o4 == 0 and _on_seg(c, d, b):
        return True
    return False


def seg_seg_d2_exact(a, b, c, d):
    """Exact squared minimum distance between segments ab and cd (Fraction pairs)."""
    if intersects_exact(a, b, c, d):
        return F(0)
    return min(pt_seg_d2_exact(a, c, d), pt_seg_d2_exact(b, c, d),
               pt_seg_d2_exact(c, a, b), pt_seg_d2_exact(d, a, b))


def sqrt_fr(x):
    """float sqrt of a non-negative Fraction without overflow/underflow surprises."""
    if x == 0:
        return 0.0
    try:
        return math.sqrt(x)
    except (OverflowError, ValueError):
        return math.sqrt(x.numerator) / math.sqrt(x.denominator)


def seg_seg(a, b, c, d):
    """True minimum distance between two segments (float result, exact decisions)."""
    return sqrt_fr(seg_seg_d2_exact(fr(a), fr(b), fr(c), fr(d)))


def classify_pair(a, b, c, d):
    """Configuration class of a segment pair, decided exactly."""
    a, b, c, d = fr(a), fr(b), fr(c), fr(d)
    if a == b or c == d:
        return "zero-length"
    cross = (b[0] - a[0]) * (d[1] - c[1]) - (b[1] - a[1]) * (d[0] - c[0])
    inter = intersects_exact(a, b, c, d)
    if cross == 0:
        if _orient(a, b, c) == 0:
            return "collinear-overlap" if inter else "collinear-disjoint"
        return "parallel"
    if inter:
        o = [_orient(a, b, c), _orient(a, b, d), _orient(c, d, a), _orient(c, d, b)]
        return "touching" if any(x == 0 for x in o) else "crossing"
    return "disjoint-general"
