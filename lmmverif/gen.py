"""Shared Hypothesis strategies: road graphs, traces, matcher configurations, operation histories.
Every random choice is drawn from Hypothesis (no private RNG), so shrinking and replay work.
Cases are plain JSON-able dicts:
  graph  = [[label, [y, x], [neighbour labels]], ...]        (listing order is part of the case)
  trace  = [[y, x], ...] (optionally [y, x, t])
  config = {"family": "simple"|"simple_n"|"distance", **matcher kwargs}
"""
import math

from hypothesis import strategies as st

from . import geomsph as gs

INT = st.integers


def pick(draw, seq):
    return seq[draw(INT(0, len(seq) - 1))]


def chance(draw, num, den=10):
    """True with probability ~num/den (shrinks towards False)."""
    return draw(INT(0, den - 1)) >= den - num


def shuffled(draw, seq):
    """A permutation of seq by Fisher-Yates over integer draws (st.permutations rejects nearly every byte string handed to
    fuzz_one_input, which starves the atheris bridge)."""
    out = list(seq)
    for i in range(len(out) - 1, 0, -1):
        j = draw(INT(0, i))
        out[i], out[j] = out[j], out[i]
    return out


STR_LABELS = ["A", "B", "C", "D", "E", "F", "G", "H", "I", "J", "K", "L", "M", "N", "P", "Q", "R", "S",
              "X1", "X2", "Y1", "n7", "aa", "ab", "ba", "Zed", "10", "3"]


@st.composite
def labels(draw, n, kind):
    """n distinct labels, homogeneous type (mixing 1 and '1' would alias edge names inside the package)."""
    if kind == "int":
        base = draw(st.sampled_from([0, 0, 1, 100, 4000000000]))
        perm = shuffled(draw, range(n + 3))[:n]
        return [base + p for p in perm]
    if kind == "negint":
        perm = shuffled(draw, range(-3, n + 2))[:n]
        return list(perm)
    if n > len(STR_LABELS):
        return list(STR_LABELS) + ["s%d" % i for i in range(n - len(STR_LABELS))]  # extra-long cases: no shuffle (few draws)
    perm = shuffled(draw, STR_LABELS)[:n]
    return list(perm)


def _lattice_point(draw, span=8):
    return (draw(INT(0, span)) * 0.5, draw(INT(0, span)) * 0.5)


def _float_point(draw, span=4.0):
    return (draw(INT(0, int(span * 100))) / 100.0, draw(INT(0, int(span * 100))) / 100.0)


@st.composite
def planar_graph(draw, min_nodes=2, max_nodes=8, label_kinds=("int", "str"), families=None,
                 self_listed=True, dup_locations=False, chain_steps=None):
    fam = draw(st.sampled_from(families or ["grid", "grid", "float", "chain", "chain", "oneway", "twocomp", "mesh", "fork"]))
    kind = draw(st.sampled_from(list(label_kinds)))
    n = draw(INT(max(min_nodes, 4 if fam in ("chain", "twocomp") else min_nodes), max(max_nodes, min_nodes)))
    if fam == "fork":
        stem = pick(draw, [1, 2])
        blen = pick(draw, [2, 2, 3]) if max_nodes >= stem + 1 + 6 else 2
        n = stem + 1 + 2 * blen
    if fam == "mesh":
        rows = 2 if max_nodes < 9 or chance(draw, 4) else 3
        cols = max(2, min(max_nodes // rows, pick(draw, [2, 3, 3, 4])))
        n = rows * cols
    labs = draw(labels(n, kind))
    locs, used = [], set()
    nbrs = [[] for _ in range(n)]

    def add(i, j, both):
        if i != j and labs[j] not in nbrs[i]:
            nbrs[i].append(labs[j])
        if both and i != j and labs[i] not in nbrs[j]:
            nbrs[j].append(labs[i])

    if fam == "fork":
        # a stem that splits into two mirror-image branches: exact probability ties between the branches
        step = pick(draw, [1.0, 1.0, 1.5])
        oneway = chance(draw, 3)
        for i in range(stem + 1):
            locs.append((0.0, i * step))
        base_x = stem * step
        dy = pick(draw, [0.5, 1.0])
        for sign in (1, -1):
            for j in range(1, blen + 1):
                locs.append((sign * dy * min(j, 2), base_x + j * step))
        for i in range(stem):
            add(i, i + 1, not oneway)
        for b in range(2):
            first = stem + 1 + b * blen
            add(stem, first, not oneway)
            for j in range(blen - 1):
                add(first + j, first + j + 1, not oneway)
        if draw(st.booleans()):  # list the second branch first at the junction
            nbrs[stem].reverse()
    elif fam == "mesh":
        # jittered rows x cols street grid, all streets two-way, a few diagonals: many candidates per observation
        for r in range(rows):
            for c in range(cols):
                locs.append((round(r + draw(INT(-15, 15)) / 100.0, 2), round(c + draw(INT(-15, 15)) / 100.0, 2)))
        for r in range(rows):
            for c in range(cols):
                i = r * cols + c
                if c + 1 < cols:
                    add(i, i + 1, True)
                if r + 1 < rows:
                    add(i, i + cols, True)
                if c + 1 < cols and r + 1 < rows and chance(draw, 2):
                    add(i, i + cols + 1, not chance(draw, 3))
    elif fam == "chain":
        y, x, ang = 0.0, 0.0, 0.0
        nmain = n - draw(INT(0, min(2, n - 3)))
        for i in range(nmain):
            locs.append((round(y, 2), round(x, 2)))
            ang += pick(draw, [0.0, 0.0, 0.5, -0.5, 1.0, -1.0])
            step = pick(draw, chain_steps or [0.5, 1.0, 1.0, 1.5])
            y, x = y + step * math.sin(ang), x + step * math.cos(ang)
        for i in range(nmain - 1):
            add(i, i + 1, both=not chance(draw, 3))
        for k in range(nmain, n):
            a = draw(INT(0, nmain - 1))
            locs.append((round(locs[a][0] + draw(INT(-100, 100)) / 100.0, 2), round(locs[a][1] + draw(INT(-100, 100)) / 100.0, 2)))
            add(a, k, both=not chance(draw, 3))
    else:
        for i in range(n):
            for _attempt in range(6):
                p = _float_point(draw) if fam == "float" else _lattice_point(draw)
                if dup_locations and locs and chance(draw, 3):
                    p = pick(draw, locs)
                if dup_locations or p not in used:
                    break
            if p in used and not dup_locations:
                p = (p[0] + 0.25 * (i + 1), p[1] + 0.125 * (i + 1))
            used.add(p)
            locs.append(p)
        directed_p = 7 if fam == "oneway" else 2
        comp = [0] * n
        if fam == "twocomp":
            half = n // 2
            comp = [0] * half + [1] * (n - half)
            locs = [(p[0], p[1] + (6.0 if comp[i] else 0.0)) for i, p in enumerate(locs)]
        for i in range(1, n):
            cands = [j for j in range(i) if comp[j] == comp[i]]
            if not cands:
                continue
            j = pick(draw, cands)
            if chance(draw, directed_p):
                if draw(st.booleans()):
                    add(i, j, False)
                else:
                    add(j, i, False)
            else:
                add(i, j, True)
        for _ in range(draw(INT(0, n))):
            i, j = draw(INT(0, n - 1)), draw(INT(0, n - 1))
            if i != j and comp[i] == comp[j]:
                add(i, j, both=not chance(draw, directed_p))
    # nodes that list themselves as a neighbour (self-loops in the source data): one node in a tenth of the maps, or -
    # self_listed = k > 1 - up to three nodes in k tenths of the maps
    if self_listed and chance(draw, 1 if self_listed is True else int(self_listed)):
        for _ in range(1 if self_listed is True else draw(INT(1, 3))):
            i = draw(INT(0, n - 1))
            if labs[i] not in nbrs[i]:
                nbrs[i].insert(draw(INT(0, len(nbrs[i]))), labs[i])
    return [[labs[i], [locs[i][0], locs[i][1]], nbrs[i]] for i in range(n)]


def model_of(graph):
    loc = {lab: (p[0], p[1]) for lab, p, _ in graph}
    adj = {lab: [n for n in nb] for lab, _, nb in graph}
    return loc, adj


@st.composite
def trace_on(draw, graph, min_len=1, max_len=7, kinds=None, time=False, sigmas=None):
    loc, adj = model_of(graph)
    nodes = [lab for lab, _, _ in graph]
    kind = draw(st.sampled_from(kinds or ["walk", "walk", "walk", "sparse", "outlier", "exact", "repeat", "random"]))
    T = min(max_len, max(min_len, pick(draw, [1, 2, 3, 3, 4, 4, 5, 5, 6, 6, 7, 8, 9, 10, 12])))
    if T > 7 and max_len > 7:
        T = draw(INT(8, max_len))
    sigma = pick(draw, sigmas or [0.05, 0.1, 0.2, 0.2, 0.5, 1.0])
    if kind == "exact":
        sigma = 0.0
    pts = []
    cur = pick(draw, nodes)
    prev = None
    if kind == "random":
        ys = [p[0] for p in loc.values()]
        xs = [p[1] for p in loc.values()]
        for _ in range(T):
            pts.append((round(min(ys) - 1 + draw(INT(0, 100)) / 100.0 * (max(ys) - min(ys) + 2), 2),
                        round(min(xs) - 1 + draw(INT(0, 100)) / 100.0 * (max(xs) - min(xs) + 2), 2)))
    else:
        for _ in range(T):
            hops = draw(INT(0, 1)) if kind in ("walk", "exact", "repeat", "outlier") else pick(draw, [1, 2, 2, 3, 3, 4])
            if prev is None:
                hops = max(hops, 1)
            for _h in range(hops):
                out = [c for c in adj[cur] if c != cur]
                if not out:
                    break
                fwd = [c for c in out if c != prev] or out
                prev, cur = cur, pick(draw, fwd)
            a = loc[prev] if prev is not None else loc[cur]
            b = loc[cur]
            if kind == "exact":
                # on a node, in the middle of an edge, or on the edge a hair's breadth from its end (the node-and-edge matchers
                # treat "at the end" specially, with a 1e-8 tolerance)
                f = pick(draw, [0.0, 0.5, 1.0, 1.0, 1e-5, 1 - 1e-5, 1e-3])
            else:
                f = draw(INT(0, 20)) / 20.0
            p = (a[0] + f * (b[0] - a[0]), a[1] + f * (b[1] - a[1]))
            if sigma:
                p = (round(p[0] + sigma * draw(INT(-100, 100)) / 50.0, 2), round(p[1] + sigma * draw(INT(-100, 100)) / 50.0, 2))
            pts.append(p)
            if kind == "repeat" and chance(draw, 4) and len(pts) < T:
                pts.append(p)
        pts = pts[:T]
        if kind == "outlier" and pts:
            k = pick(draw, [0, 0, 1, len(pts) - 1, len(pts) // 2, draw(INT(0, len(pts) - 1))])
            k = min(max(k, 0), len(pts) - 1)
            far = pick(draw, [10.0, 25.0, 50.0, 3.0])
            pts[k] = (pts[k][0] + far, pts[k][1] - far / 2)
    if time:
        t0 = draw(INT(0, 1000))
        return [[p[0], p[1], float(t0 + 5 * i)] for i, p in enumerate(pts)]
    return [[p[0], p[1]] for p in pts]


NOISE = [0.25, 0.5, 0.5, 1.0, 1.0, 2.0]
MAXD = [None, None, None, 0.5, 1.0, 1.5, 2.0, 3.0]
MINP = [None, None, None, 0.001, 0.01, 0.1, 0.5, 0.9]


@st.composite
def config(draw, families=("simple", "simple_n", "distance"), ne=None, width="rand", first_order=False,
           cutoffs=True, ne_noise=True):
    fam = draw(st.sampled_from(list(families)))
    cfg = {"family": fam}
    cfg["obs_noise"] = draw(st.one_of(st.sampled_from(NOISE), st.floats(0.05, 5.0).map(lambda v: round(v, 3))))
    if cutoffs:
        cfg["max_dist"] = draw(st.sampled_from(MAXD))
        cfg["max_dist_init"] = draw(st.sampled_from([None, None, None, None, None, 0.5, 1.0, 1.5, 2.5]))
        cfg["min_prob_norm"] = draw(st.sampled_from(MINP))
    else:
        cfg["max_dist"] = None
        cfg["max_dist_init"] = None
        cfg["min_prob_norm"] = None
    cfg["non_emitting_states"] = draw(st.booleans()) if ne is None else ne
    if width == "rand":
        cfg["max_lattice_width"] = draw(st.sampled_from([None, None, None, 1, 2, 3, 5]))
    else:
        cfg["max_lattice_width"] = width
    cfg["avoid_goingback"] = False if first_order else draw(st.booleans())
    if cfg["non_emitting_states"]:
        if ne_noise and chance(draw, 5):
            cfg["obs_noise_ne"] = draw(st.sampled_from([0.5, 1.0, 2.0, 5.0]))
        if chance(draw, 3):
            cfg["non_emitting_length_factor"] = draw(st.sampled_from([0.25, 0.5, 0.9, 1.0]))
        if chance(draw, 2):
            cfg["ne_maxnb"] = draw(st.sampled_from([1, 2, 3]))  # matcher.non_emitting_states_maxnb (default 100)
    if fam == "nk":
        cfg["beta"] = draw(st.sampled_from([1 / 6, 0.5, 1.0, 2.0]))
        if cfg["non_emitting_states"] and chance(draw, 3):
            cfg["beta_ne"] = draw(st.sampled_from([0.25, 1.0, 4.0]))
    if fam == "distance":
        if chance(draw, 5):
            cfg["dist_noise"] = draw(st.sampled_from([0.25, 0.5, 1.0, 2.0]))
        if cfg["non_emitting_states"]:
            if chance(draw, 5):
                cfg["dist_noise_ne"] = draw(st.sampled_from([0.1, 0.25, 0.5, 1.0, 4.0]))
            if chance(draw, 3):
                cfg["restrained_ne"] = False
    return cfg


@st.composite
def match_case(draw, max_nodes=8, max_len=7, min_len=1, graph_kw=None, trace_kw=None, config_kw=None):
    g = draw(planar_graph(max_nodes=max_nodes, **(graph_kw or {})))
    t = draw(trace_on(g, min_len=min_len, max_len=max_len, **(trace_kw or {})))
    c = draw(config(**(config_kw or {})))
    return {"graph": g, "trace": t, "config": c}


@st.composite
def ne_case(draw, max_nodes=8, max_len=7, families=("simple", "simple_n", "distance"), width=None, first_order=False):
    families = tuple(families)
    """Cases built so that non-emitting states are needed: long hops, little noise, sparse observations."""
    g = draw(planar_graph(min_nodes=4, max_nodes=max_nodes, families=["chain"], chain_steps=[1.0, 1.5, 2.0], self_listed=False))
    t = draw(trace_on(g, min_len=2, max_len=max_len, kinds=["sparse"], sigmas=[0.05, 0.1, 0.2]))
    c = draw(config(families=families, ne=True, width=width, first_order=first_order))
    c["obs_noise"] = draw(st.sampled_from([0.1, 0.25, 0.5]))
    if c.get("max_dist") is not None and c["max_dist"] < 1.0:
        c["max_dist"] = None
    if c.get("max_dist_init") is not None and c["max_dist_init"] < 1.0:
        c["max_dist_init"] = None
    if c.get("min_prob_norm") is not None and c["min_prob_norm"] > 0.01:
        c["min_prob_norm"] = draw(st.sampled_from([None, 0.001]))
    return {"graph": g, "trace": t, "config": c}


@st.composite
def _xl_ne_case(draw, families, first_order):
    """A straight road of 120-160 segments observed every 4th or 5th segment (30-40 observations): more than a hundred
    non-emitting states on the best path in total (the default cap of 100 applies per gap, not in total)."""
    T, k = pick(draw, [(36, 4), (40, 4), (30, 5)])
    n = k * (T - 1) + 2
    step = pick(draw, [1.0, 2.0])
    base_lab = pick(draw, [0, 1000])
    oneway = chance(draw, 3)
    g = [[base_lab + i, [0.0, i * step], [base_lab + j for j in ((i + 1,) if oneway else (i - 1, i + 1)) if 0 <= j < n]] for i in range(n)]
    off = pick(draw, [0.0, 0.05, -0.1])
    t = [[off, (j * k + pick(draw, [0.25, 0.5, 0.75])) * step] for j in range(T)]
    c = draw(config(families=families, ne=True, width=None, first_order=first_order, cutoffs=False))
    c["obs_noise"] = 0.5 * step
    c["max_dist"] = c["max_dist_init"] = 2.5 * step
    c["max_lattice_width"] = pick(draw, [None, None, 3])
    for key in ("obs_noise_ne", "dist_noise", "dist_noise_ne"):
        if key in c:
            c[key] = c[key] * step
    c.pop("ne_maxnb", None)
    return {"graph": g, "trace": t, "config": c, "xl": True}


@st.composite
def long_ne_case(draw, families=("simple", "simple_n", "distance"), width=None, first_order=False):
    """A long road (10-24 nodes) observed only every k-th segment (k = 2..4, 3-6 observations, little noise): the best path
    holds many non-emitting states in total (up to ~15), k-1 in every gap.  The cap on non-emitting states per gap
    (matcher.non_emitting_states_maxnb) is left at its default or set just around what a gap needs."""
    if chance(draw, 1, 20):
        return draw(_xl_ne_case(tuple(families), first_order))
    k = pick(draw, [2, 2, 3, 3, 4])
    T = pick(draw, [3, 3, 4, 4, 5, 6])
    n = min(24, k * (T - 1) + 2 + draw(INT(0, 3)))
    kind = pick(draw, ["int", "int", "str"])
    labs = draw(labels(n + 1, kind))
    labs, side = labs[:n], labs[n]
    oneway = chance(draw, 3)
    step = pick(draw, [1.0, 1.0, 1.5, 2.0])
    y, x, ang = 0.0, 0.0, 0.0
    locs = []
    for _ in range(n):
        locs.append((round(y, 2), round(x, 2)))
        ang = max(-0.6, min(0.6, ang + pick(draw, [0.0, 0.0, 0.0, 0.2, -0.2])))
        y, x = y + step * math.sin(ang), x + step * math.cos(ang)
    nbrs = [[] for _ in range(n)]
    for i in range(n - 1):
        nbrs[i].append(labs[i + 1])
        if not oneway:
            nbrs[i + 1].append(labs[i])
    if chance(draw, 3) and n >= 6:
        # a side street somewhere along the road
        a = draw(INT(1, n - 2))
        labs = labs + [side]
        locs.append((round(locs[a][0] + 1.0, 2), round(locs[a][1] + 0.1, 2)))
        nbrs.append([labs[a]])
        nbrs[a].append(side)
    g = [[labs[i], list(locs[i]), nbrs[i]] for i in range(len(labs))]
    sigma = pick(draw, [0.0, 0.05, 0.1])
    t = []
    for j in range(T):
        i = min(j * k, n - 2)
        f = pick(draw, [0.25, 0.5, 0.5, 0.75])
        p = (locs[i][0] + f * (locs[i + 1][0] - locs[i][0]), locs[i][1] + f * (locs[i + 1][1] - locs[i][1]))
        t.append([round(p[0] + sigma * draw(INT(-100, 100)) / 50.0, 3), round(p[1] + sigma * draw(INT(-100, 100)) / 50.0, 3)])
    c = draw(config(families=tuple(families), ne=True, width=width, first_order=first_order, cutoffs=False))
    c["obs_noise"] = pick(draw, [0.25, 0.5])
    if c.get("max_lattice_width") is not None and c["max_lattice_width"] < 2:
        c["max_lattice_width"] = 2
    c["ne_maxnb"] = pick(draw, [None, None, k - 1, k, k + 1])
    if c["ne_maxnb"] is None:
        del c["ne_maxnb"]
    return {"graph": g, "trace": t, "config": c}


@st.composite
def fork_case(draw, max_nodes=8, families=("simple", "distance", "simple_n")):
    """Stem + two mirror-image branches, observations at the foot of the stem and far along one branch (non-emitting states
    needed, exact ties between the branches inside the non-emitting layers), narrow width: the tie handling of pruning decides."""
    g = draw(planar_graph(max_nodes=max(max_nodes, 8), families=["fork"], self_listed=False))
    loc, adj = model_of(g)
    labs = [n[0] for n in g]
    # the first observation sits beside the stem: the first non-emitting step is then the worst one of a chain, and since a
    # chain scores the minimum over its steps, both branches tie exactly in the deeper layers
    t = [[loc[labs[0]][0] + pick(draw, [0.0, 0.75, 1.0, -1.0]), loc[labs[0]][1]]]
    far = [l for l in labs if abs(loc[l][0]) >= 0.5]
    tip = pick(draw, far)
    eps = pick(draw, [0.0, 0.0, 0.01, 0.05])
    t.append([loc[tip][0] + eps, loc[tip][1]])
    if chance(draw, 4):
        t.append([loc[tip][0], loc[tip][1] + 0.3])
    c = draw(config(families=families, ne=True, width=None))
    c["max_lattice_width"] = pick(draw, [1, 1, 2])
    c["obs_noise"] = pick(draw, [0.25, 0.5, 1.0])
    c["max_dist"] = None
    c["max_dist_init"] = None
    c["min_prob_norm"] = None
    if chance(draw, 5):
        c["obs_noise_ne"] = 2 * c["obs_noise"]
    return {"graph": g, "trace": t, "config": c, "gen": "fork"}


@st.composite
def hashsquare_case(draw, families=("simple", "simple_n", "distance", "nk")):
    """A block of four to six streets whose coordinates are all -1.0 or -2.0 - the two numbers CPython hashes alike
    (hash(-1) == hash(-2)) - with observations exactly on the corners: any cache, set or dict keyed by hash(coordinates)
    instead of the coordinates themselves confuses different observations or nodes."""
    kind = pick(draw, ["int", "str", "negint"])
    labs = draw(labels(4, kind))
    pts = [(-2.0, -2.0), (-2.0, -1.0), (-1.0, -1.0), (-1.0, -2.0)]
    nbrs = [[] for _ in range(4)]
    for i in range(4):
        j = (i + 1) % 4
        nbrs[i].append(labs[j])
        if not chance(draw, 2):
            nbrs[j].append(labs[i])
    if chance(draw, 5):
        nbrs[0].append(labs[2])
        nbrs[2].append(labs[0])
    g = [[labs[i], list(pts[i]), nbrs[i]] for i in range(4)]
    T = pick(draw, [3, 4, 4, 5, 6])
    t, cur = [], draw(INT(0, 3))
    for _ in range(T):
        t.append(list(pts[cur]))
        cur = (cur + pick(draw, [0, 1, 1, 1, 3])) % 4
    c = draw(config(families=tuple(families), cutoffs=False))
    c["obs_noise"] = pick(draw, [0.5, 1.0])
    return {"graph": g, "trace": t, "config": c, "gen": "hashsquare"}


@st.composite
def star_case(draw, families=("simple", "simple_n", "distance", "nk")):
    """A hub with four two-segment spokes in the axis directions and observations on the diagonals: several paths are exactly
    equally probable (mirror images), so whatever decides among ties - creation order, listing order, hashing - shows.  The hub
    may list itself as a neighbour (a self-loop in the source data)."""
    kind = pick(draw, ["str", "str", "int"])
    labs = draw(labels(9, kind))
    r = pick(draw, [1.0, 2.0])
    dirs = [(1.0, 0.0), (0.0, 1.0), (-1.0, 0.0), (0.0, -1.0)]
    g = [[labs[0], [0.0, 0.0], []]]
    for i, (dy, dx) in enumerate(dirs):
        inner, outer = labs[1 + i], labs[5 + i]
        g.append([inner, [dy * r, dx * r], [labs[0], outer]])
        g.append([outer, [2 * dy * r, 2 * dx * r], [inner]])
        g[0][2].append(inner)
    if chance(draw, 5):
        g[0][2].insert(draw(INT(0, 4)), labs[0])  # the hub lists itself
    sy, sx = pick(draw, [(1, 1), (1, -1), (-1, 1), (-1, -1)])
    t = [[0.0, 0.0] if chance(draw, 7) else [0.1 * sy, 0.1 * sx]]
    for d in ([1.5 * r] if chance(draw, 3) else [1.5 * r, 2.0 * r]):
        t.append([sy * d, sx * d])
    c = draw(config(families=tuple(families), width=None, cutoffs=False))
    c["obs_noise"] = pick(draw, [1.0, 2.0]) * r
    c["max_dist_init"] = pick(draw, [0.5 * r, None])
    c["max_lattice_width"] = pick(draw, [None, None, 2, 4])
    for key in ("obs_noise_ne", "dist_noise", "dist_noise_ne"):
        if key in c:
            c[key] = c[key] * r
    return {"graph": g, "trace": t, "config": c, "gen": "star"}


@st.composite
def load_plan(draw, graph):
    """A call-by-call way of loading `graph` into a SqliteMap (see base.mk_sqlite): per-call no_index / no_commit flags,
    repeated add_node of a known label with ignore_doubles (other coordinates), repeated add_edge of a known edge (also
    first unindexed, later indexed), re-index calls in between."""
    nodes = [n[0] for n in graph]
    locs = [n[1] for n in graph]
    edges = []
    for lab, _loc, nbrs in graph:
        for n in nbrs:
            if n != lab and [lab, n] not in edges:
                edges.append([lab, n])
    plan = []
    for lab in shuffled(draw, nodes):
        plan.append(["node", lab, chance(draw, 3), chance(draw, 3)])
        if chance(draw, 2):
            other = pick(draw, locs)
            plan.append(["node_again", pick(draw, [p[1] for p in plan if p[0] == "node"]),
                         [other[0] + pick(draw, [0.0, 0.5, 1.0, -2.0]), other[1] + pick(draw, [0.0, 0.25, 3.0])]])
        if chance(draw, 1):
            plan.append(["reindex_nodes"])
    added = []
    for e in shuffled(draw, edges):
        plan.append(["edge", e[0], e[1], chance(draw, 4), chance(draw, 3)])
        added.append(e)
        if chance(draw, 3):
            again = pick(draw, added)
            plan.append(["edge", again[0], again[1], chance(draw, 2), chance(draw, 3)])
        if chance(draw, 1):
            plan.append([pick(draw, ["reindex_edges", "commit", "reindex_nodes"])])
    return plan


def sizes(tier):
    return {"max_nodes": 8, "max_len": 7} if tier == "quick" else {"max_nodes": 12, "max_len": 12}


# ---- lat/lon placement -------------------------------------------------------------------------

@st.composite
def origin(draw, max_lat=60.0):
    # sampled_from is uniform (Hypothesis floats / integers concentrate on 0 and "simple" values)
    m = int(max_lat)
    lat = draw(st.sampled_from(list(range(-m, m + 1, 3)))) + draw(st.sampled_from([0.0, 0.13, 0.5, 0.87, 0.999]))
    lat = max(-max_lat, min(max_lat, lat))
    lon = draw(st.sampled_from(list(range(-178, 179, 7)))) + draw(st.sampled_from([0.0, 0.3, 0.7, 0.95]))
    return [lat, lon]


def place_graph(graph, org, unit):
    """planar graph (abstract units) -> lat/lon graph with `unit` metres per abstract unit"""
    return [[lab, list(gs.local_to_latlon(org, p[0] * unit, p[1] * unit)), list(nb)] for lab, p, nb in graph]


def place_trace(trace, org, unit):
    return [list(gs.local_to_latlon(org, p[0] * unit, p[1] * unit)) + list(p[2:]) for p in trace]


def scale_graph(graph, unit):
    return [[lab, [p[0] * unit, p[1] * unit], list(nb)] for lab, p, nb in graph]


def scale_trace(trace, unit):
    return [[p[0] * unit, p[1] * unit] + list(p[2:]) for p in trace]


def scale_config(cfg, unit):
    out = dict(cfg)
    for k in ("obs_noise", "obs_noise_ne", "dist_noise", "dist_noise_ne", "max_dist", "max_dist_init", "beta", "beta_ne"):
        if out.get(k) is not None:
            out[k] = out[k] * unit
    return out
