"""Persistent helper process for C18: opens a stored SQLite map in ANOTHER interpreter (different PYTHONHASHSEED) and reports its
answers. One JSON request per line on stdin: {"file": ..., "queries": [...]}; one JSON answer per line on stdout."""
import json
import sys

from . import base


def main():
    base.load_repo()
    from leuvenmapmatching.map.sqlite import SqliteMap
    from .props.c18 import answers
    sys.stdout.write(json.dumps({"ready": True}) + "\n")
    sys.stdout.flush()
    for line in sys.stdin:
        line = line.strip()
        if not line:
            continue
        req = json.loads(line)
        try:
            with base.quiet():
                m = SqliteMap.from_file(req["file"])
                try:
                    out = answers(m, req["queries"])
                finally:
                    m.db.close()
            res = {"answers": base.jsonable(out)}
        except base.Violation as v:
            res = {"raised": v.clause, "msg": v.msg}
        except Exception as e:  # noqa
            res = {"raised": type(e).__name__, "msg": str(e)[:200]}
        sys.stdout.write(base.canon_json(res) + "\n")
        sys.stdout.flush()


if __name__ == "__main__":
    main()
