"""Persistent worker for C10: one process per PYTHONHASHSEED value; reads one JSON case per line on stdin,
answers one JSON line with the canonical result of a fresh match."""
import json
import sys

from . import base


def main():
    base.load_repo()
    from .props import common
    sys.stdout.write(json.dumps({"ready": True, "hashseed": sys.flags.hash_randomization}) + "\n")
    sys.stdout.flush()
    for line in sys.stdin:
        line = line.strip()
        if not line:
            continue
        case = json.loads(line)
        try:
            matcher, states, idx = common.run_match(case)
            out = base.canon(matcher, states, idx)
        except base.Violation as v:
            out = {"raised": v.clause, "msg": v.msg}
        sys.stdout.write(base.canon_json(out) + "\n")
        sys.stdout.flush()


if __name__ == "__main__":
    main()
