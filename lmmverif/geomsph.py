"""Independent spherical reference geometry on the R = 6 371 000 m sphere, by 3-D unit vectors.
Shares no code (and no formula family: no haversine, no cross-track formula) with the package."""
import math

R = 6371000.0


def vec(p):
    lat, lon = math.radians(p[0]), math.radians(p[1])
    c = math.cos(lat)
    return (c * math.cos(lon), c * math.sin(lon), math.sin(lat))


def latlon(v):
    n = norm(v)
    x, y, z = v[0] / n, v[1] / n, v[2] / n
    return (math.degrees(math.atan2(z, math.hypot(x, y))), math.degrees(math.atan2(y, x)))


def dot(a, b):
    return a[0] * b[0] + a[1] * b[1] + a[2] * b[2]


def cross(a, b):
    return (a[1] * b[2] - a[2] * b[1], a[2] * b[0] - a[0] * b[2], a[0] * b[1] - a[1] * b[0])


def norm(a):
    return math.sqrt(dot(a, a))


def unit(a):
    n = norm(a)
    return (a[0] / n, a[1] / n, a[2] / n)


def sub(a, b):
    return (a[0] - b[0], a[1] - b[1], a[2] - b[2])


def add(a, b):
    return (a[0] + b[0], a[1] + b[1], a[2] + b[2])


def cross_stable(a, b):
    """a x b for unit vectors without the cancellation of the naive formula when a ~ b:
    (a+b) x (b-a) = 2 a x b, and b-a is (nearly) exact for nearby vectors."""
    c = cross(add(a, b), sub(b, a))
    return (c[0] / 2, c[1] / 2, c[2] / 2)


def angle(u, v):
    """Kahan's formula: accurate for tiny and for large angles alike."""
    return 2.0 * math.atan2(norm(sub(u, v)), norm(add(u, v)))


def dist(p, q):
    return R * angle(vec(p), vec(q))


def bearing(p, q):
    """Initial bearing from p to q (radians, clockwise from north)."""
    u = vec(p)
    lat, lon = math.radians(p[0]), math.radians(p[1])
    north = (-math.sin(lat) * math.cos(lon), -math.sin(lat) * math.sin(lon), math.cos(lat))
    east = (-math.sin(lon), math.cos(lon), 0.0)
    w = vec(q)
    # tangent component of q at p
    t = (w[0] - dot(w, u) * u[0], w[1] - dot(w, u) * u[1], w[2] - dot(w, u) * u[2])
    return math.atan2(dot(t, east), dot(t, north))


def destination(p, brng, d):
    """Point at distance d (m) from p along the great circle with initial bearing brng (rad)."""
    u = vec(p)
    lat, lon = math.radians(p[0]), math.radians(p[1])
    north = (-math.sin(lat) * math.cos(lon), -math.sin(lat) * math.sin(lon), math.cos(lat))
    east = (-math.sin(lon), math.cos(lon), 0.0)
    dirv = tuple(north[i] * math.cos(brng) + east[i] * math.sin(brng) for i in range(3))
    a = d / R
    w = tuple(u[i] * math.cos(a) + dirv[i] * math.sin(a) for i in range(3))
    return latlon(w)


def pt_arc(p, s1, s2):
    """Nearest point of the minor arc s1->s2 to p: (distance m, point (lat, lon), t in [0,1])."""
    a, b, q = vec(s1), vec(s2), vec(p)
    n = cross_stable(a, b)
    ln = norm(n)
    total = angle(a, b)
    if ln < 1e-15:  # zero-length (or antipodal, excluded by the generators)
        return R * angle(a, q), s1, 0.0
    n = (n[0] / ln, n[1] / ln, n[2] / ln)
    h = dot(q, n)
    f = (q[0] - h * n[0], q[1] - h * n[1], q[2] - h * n[2])  # projection on the great-circle plane
    lf = norm(f)
    if lf < 1e-12:  # p is a pole of the great circle: every point of the arc is equally near
        return R * angle(a, q), s1, 0.0
    f = (f[0] / lf, f[1] / lf, f[2] / lf)
    inside = dot(cross_stable(a, f), n) >= 0 and dot(cross_stable(f, b), n) >= 0
    if inside:
        d = R * math.atan2(abs(h), lf)
        t = angle(a, f) / total
        return d, latlon(f), min(1.0, max(0.0, t))
    da, db = R * angle(a, q), R * angle(b, q)
    if da <= db:
        return da, s1, 0.0
    return db, s2, 1.0


def at(s1, s2, t):
    """Point at fraction t of the arc s1->s2."""
    a, b = vec(s1), vec(s2)
    total = angle(a, b)
    if total == 0:
        return s1
    n = unit(cross_stable(a, b))
    e = cross(n, a)  # unit vector in the plane, perpendicular to a, towards b
    ang = t * total
    w = tuple(a[i] * math.cos(ang) + e[i] * math.sin(ang) for i in range(3))
    return latlon(w)


def arcs_intersect(s1, s2, t1, t2):
    a, b, c, d = vec(s1), vec(s2), vec(t1), vec(t2)
    n1, n2 = cross_stable(a, b), cross_stable(c, d)
    if norm(n1) < 1e-15 or norm(n2) < 1e-15:
        return False
    x = cross(n1, n2)
    if norm(x) < 1e-18:
        return False
    x = unit(x)
    n1u, n2u = unit(n1), unit(n2)
    for s in (1, -1):
        y = (s * x[0], s * x[1], s * x[2])
        if (dot(cross_stable(a, y), n1u) >= 0 and dot(cross_stable(y, b), n1u) >= 0 and
                dot(cross_stable(c, y), n2u) >= 0 and dot(cross_stable(y, d), n2u) >= 0):
            return True
    return False


def arc_arc(s1, s2, t1, t2):
    """Minimum distance between two minor arcs (m)."""
    if arcs_intersect(s1, s2, t1, t2):
        return 0.0
    return min(pt_arc(s1, t1, t2)[0], pt_arc(s2, t1, t2)[0], pt_arc(t1, s1, s2)[0], pt_arc(t2, s1, s2)[0])


def local_to_latlon(origin, y, x):
    """Place a planar point (y north, x east; metres) at `origin` by the local equirectangular map."""
    lat0, lon0 = origin
    lat = lat0 + math.degrees(y / R)
    lon = lon0 + math.degrees(x / (R * math.cos(math.radians(lat0))))
    lon = ((lon + 180.0) % 360.0) - 180.0  # a map may straddle the antimeridian: longitudes stay in [-180, 180)
    return (lat, lon)
