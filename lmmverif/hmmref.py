"""Independent reference of the documented HMM model (planar metric), written from the docstrings and
docs/usage — shares no code with the package.

States: an edge state is a tuple (a, b) (directed edge a->b), a node state is a bare label.
Model quantities for one state on a path (a "record", plain dict):
  s, edge, ne, pi (point on the map), ti, opi (point on the observation side), d (distance), lp, lpe, lpne,
  length, d_o, d_s
"""
import collections
import math

from . import geom2d as g2

LOG = math.log
BAND = 1e-9  # decisions closer than this to a threshold are "ambiguous": the case is not decided


class Model:
    def __init__(self, graph, cfg, linked=None):
        self.loc = {lab: (p[0], p[1]) for lab, p, _ in graph}
        self.adj = {lab: list(nb) for lab, _, nb in graph}
        self.order = [lab for lab, _, _ in graph]
        fam = cfg["family"]
        self.family = "distance" if fam == "distance" else "simple"
        self.nk = fam == "nk"  # NewsonKrummMatcher: erfc emission, exp(-|d_z - d_x| / beta) transition (used by C02/C03 only)
        self.beta = cfg.get("beta", 1 / 6)
        self.beta_ne = cfg.get("beta_ne", self.beta)
        self.only_edges = fam != "simple_n"
        self.sig = cfg.get("obs_noise", 1)
        self.sig_ne = cfg.get("obs_noise_ne") if cfg.get("obs_noise_ne") is not None else self.sig
        self.max_dist = cfg.get("max_dist") or math.inf
        self.max_dist_init = cfg.get("max_dist_init") or self.max_dist
        mp = cfg.get("min_prob_norm")
        self.min_lpn = LOG(mp) if mp else -math.inf
        self.dn = cfg.get("dist_noise", self.sig)
        self.dn_ne = cfg.get("dist_noise_ne", self.dn)
        self.ag = cfg.get("avoid_goingback", True)
        self.nef = LOG(cfg.get("non_emitting_length_factor", 0.75))
        self.linked = {}
        for a, b in (linked or []):
            self.linked.setdefault(tuple(a), []).append(tuple(b))
        self.ambiguous = False
        self.rej = collections.Counter()

    # -- graph ---------------------------------------------------------------------------------
    def edges(self):
        seen, out = set(), []
        for a in self.order:
            for b in self.adj[a]:
                if a != b and (a, b) not in seen:
                    seen.add((a, b))
                    out.append((a, b))
        return out

    def is_edge(self, s):
        return isinstance(s, tuple)

    def succ(self, s):
        """Moves the map offers from state s for the next observation (emitting step)."""
        out = []
        if self.is_edge(s):
            out.append(s)
            a, b = s
            if self.only_edges:
                for c in self.adj[b]:
                    if c != b and (b, c) not in out:
                        out.append((b, c))
                for (c, d) in self.linked.get(s, ()):
                    if d != b and c != a and (c, d) not in out:
                        out.append((c, d))
            else:
                out.append(b)
        else:
            out.append(s)
            for c in self.adj[s]:
                if c != s:
                    if c not in out:
                        out.append(c)
                    if (s, c) not in out:
                        out.append((s, c))
        return out

    # -- geometry ------------------------------------------------------------------------------
    def place(self, s, o):
        """(distance, matched point, relative position) of observation o on state s."""
        if self.is_edge(s):
            p1, p2 = self.loc[s[0]], self.loc[s[1]]
            pi, t = g2.proj(o, p1, p2)
            return g2.dist(pi, o), pi, t
        p = self.loc[s]
        return g2.dist(p, o), p, 0.0

    # -- probabilities -------------------------------------------------------------------------
    def emis(self, d, ne=False):
        sg = self.sig_ne if ne else self.sig
        if self.nk:  # Newson-Krumm variant: P(d) = 2 (1 - Phi(d / sigma)) = erfc(d / (sigma sqrt 2))
            z = d / sg
            if z <= 5.0:
                v = math.erfc(z / math.sqrt(2.0))
            else:
                # deep tail: the documented formula 2 * (1 - cdf) cancels in floating point (relative error 1e-9 at z = 5,
                # 100 % at z = 8, exactly 0 beyond 8.3); it is evaluated here as written, with the same library function
                from scipy.special import ndtr
                v = 2 * (1 - float(ndtr(z)))
            return LOG(v) if v > 0 else -math.inf
        return -d * d / (2 * sg * sg)

    def trans(self, p, r, pp=None):
        """log transition probability from record p to record r (pp = record before p, or None)."""
        same = p["s"] == r["s"]
        if self.nk:
            # documented in NewsonKrummMatcher.logprob_trans: d_z between the two (interpolated) observations, d_x along the
            # previous edge to its end and from there to the new matched point; no accumulation over non-emitting runs
            dz = g2.dist(p["opi"], r["opi"])
            if same:
                dx = g2.dist(p["pi"], r["pi"])
            else:
                p2 = self.loc[p["s"][1]]
                dx = g2.dist(p["pi"], p2) + g2.dist(p2, r["pi"])
            r["d_o"], r["d_s"] = dz, dx
            return -abs(dz - dx) / (self.beta_ne if (p["ne"] or r["ne"]) else self.beta)
        if self.family == "simple":
            if same:
                return LOG(0.99) if (self.ag and r["ti"] < p["ti"]) else 0.0
            lp = LOG(0.9)
            if self.ag and pp is not None and pp["s"] == r["s"]:
                lp += LOG(0.5)
            return lp
        s0, s1 = p["s"], r["s"]
        rev = (s0[1], s0[0]) == s1
        dz = g2.dist(p["opi"], r["opi"])
        if same or rev or s0[1] != s1[0]:
            dx = g2.dist(p["pi"], r["pi"])
        else:
            p2 = self.loc[s0[1]]
            dx = g2.dist(p["pi"], p2) + g2.dist(p2, r["pi"])
        if r["ne"]:
            dz += p["d_o"]
            dx += p["d_s"]
        dn = self.dn_ne if (p["ne"] or r["ne"]) else self.dn
        lp = -(dz - dx) ** 2 / (2 * dn * dn)
        if same:
            if self.ag and r["ti"] < p["ti"]:
                lp += LOG(0.5)
        elif rev:
            if self.ag:
                lp += LOG(0.5)
        else:
            if s0[1] != s1[0]:
                lp += LOG(0.5)
            elif self.ag and pp is not None and pp["s"] == s1:
                lp += LOG(0.5)
        r["d_o"], r["d_s"] = dz, dx
        return lp

    # -- admissibility -------------------------------------------------------------------------
    def _gt(self, x, thr):
        """x > thr with an ambiguity band (exact equality is trusted: it only arises from exactly
        representable geometry, which both sides compute without rounding)."""
        if math.isinf(x) or math.isinf(thr):
            return x > thr
        if x != thr and abs(x - thr) <= BAND * max(1.0, abs(thr)):
            self.ambiguous = True
        return x > thr

    def stopped(self, lp, length, d):
        if self._gt(self.min_lpn, lp / length):
            self.rej["min_prob_norm"] += 1
            return True
        if self._gt(d, self.max_dist):
            self.rej["max_dist"] += 1
            return True
        return False

    def start_records(self, o):
        out = []
        cands = self.edges() if self.only_edges else list(self.order)
        for s in cands:
            d, pi, t = self.place(s, o)
            if not self._gt(self.max_dist_init, d):  # requires d < max_dist_init
                self.rej["max_dist_init"] += 1
                continue
            lp = self.emis(d)
            if self.stopped(lp, 1, d):
                continue
            out.append({"s": s, "edge": self.is_edge(s), "ne": False, "pi": pi, "ti": t, "opi": o, "d": d,
                        "lp": lp, "lpe": lp, "lpne": 0.0, "length": 1, "d_o": 0.0, "d_s": 0.0})
        return out

    def step(self, p, s1, o, pp=None):
        """Emitting step from record p to state s1 at observation o; None if not admissible."""
        d, pi, t = self.place(s1, o)
        if self.is_edge(s1) and not self.only_edges:
            if abs(t) <= 1e-8 or abs(t - 1.0) <= 1e-8:
                return None
            if min(abs(t), abs(t - 1.0)) <= 1e-8 + 1e-12:
                self.ambiguous = True
        r = {"s": s1, "edge": self.is_edge(s1), "ne": False, "pi": pi, "ti": t, "opi": o, "d": d, "d_o": 0.0, "d_s": 0.0}
        tr = self.trans(p, r, pp)
        lp = p["lp"] + tr + self.emis(d)
        length = p["length"] + 1
        if self.stopped(lp, length, d):
            return None
        r.update(lp=lp, lpe=lp, lpne=0.0, length=length)
        return r

    # -- evaluators (emitting-only, first-order: avoid_goingback must be False) -----------------
    def viterbi(self, obs):
        """columns [{state: record}] for as long as non-empty."""
        assert not self.ag
        cols = []
        col = {}
        for r in self.start_records(obs[0]):
            col[r["s"]] = r
        if not col:
            return cols
        cols.append(col)
        for i in range(1, len(obs)):
            new = {}
            for s0, p in col.items():
                for s1 in self.succ(s0):
                    r = self.step(p, s1, obs[i])
                    if r is None:
                        continue
                    if s1 not in new or new[s1]["lp"] < r["lp"]:
                        r["prev"] = s0
                        new[s1] = r
            if not new:
                break
            cols.append(new)
            col = new
        return cols

    def enumerate_walks(self, obs, limit=200000):
        """Exhaustive DFS over all admissible walks: (longest explainable prefix length, best lp for it, #walks of it).
        Returns None if the search exceeds `limit` nodes."""
        assert not self.ag
        best, count, budget = {}, {}, [limit]

        def rec(i, p):
            budget[0] -= 1
            if budget[0] < 0:
                raise OverflowError
            if p["lp"] > best.get(i, -math.inf):
                best[i] = p["lp"]
            count[i] = count.get(i, 0) + 1
            if i + 1 >= len(obs):
                return
            for s1 in self.succ(p["s"]):
                r = self.step(p, s1, obs[i + 1])
                if r is not None:
                    rec(i + 1, r)

        try:
            for r in self.start_records(obs[0]):
                rec(0, r)
        except OverflowError:
            return None
        if not best:
            return 0, None, 0
        k = max(best)
        return k + 1, best[k], count[k]

    def walk_admissible(self, states, obs):
        """Replay an emitting-only state sequence under the model: (records or None, reason)."""
        recs = []
        for i, s in enumerate(states):
            if i == 0:
                cand = [r for r in self.start_records(obs[0]) if r["s"] == s]
                if not cand:
                    return None, f"state {s} is not an admissible start"
                recs.append(cand[0])
            else:
                if s not in self.succ(recs[-1]["s"]):
                    return None, f"{recs[-1]['s']} -> {s} is not a move of the map"
                r = self.step(recs[-1], s, obs[i])
                if r is None:
                    return None, f"step to {s} at observation {i} violates a cut-off"
                recs.append(r)
        return recs, None
