"""Shared plumbing: locating the tree under test, building maps/matchers from JSON cases,
violation / statistics objects, known-findings file."""
import contextlib
import collections
import hashlib
import io
import json
import logging
import math
import os
import sys

VERIF = os.path.dirname(os.path.dirname(os.path.abspath(__file__)))
REPO = os.path.abspath(os.environ.get("VERIF_REPO", "/repo"))
DEPS = os.path.join(VERIF, ".deps")
if not os.path.isdir(DEPS) and os.path.isdir("/verif/.deps"):
    DEPS = "/verif/.deps"  # background snapshots of /verif (vp run) do not carry the ignored .deps directory
LOGGER_NAME = "be.kuleuven.cs.dtai.mapmatching"

EXIT_OK, EXIT_VIOLATION, EXIT_HARNESS = 0, 1, 2


class HarnessError(Exception):
    """Infrastructure problem: never reported as a VIOLATION (exit code 2)."""


class Violation(Exception):
    """The property under check does not hold on the current case."""

    def __init__(self, clause, msg="", **details):
        super().__init__(f"{clause}: {msg}")
        self.clause = clause
        self.msg = msg
        self.details = details


_loaded = False


def _under(path, root):
    return os.path.abspath(path).startswith(root + os.sep)


def is_repo_exception(exc):
    """Raised by the package under test (possibly inside numpy/scipy called by it), not by the harness."""
    import traceback
    tb = traceback.extract_tb(exc.__traceback__)
    if not tb or not any(_under(fr.filename, REPO) for fr in tb):
        return False
    return not _under(tb[-1].filename, os.path.join(VERIF, "lmmverif"))


def exc_signature(exc):
    import traceback
    inner = None
    for fr in traceback.extract_tb(exc.__traceback__):
        if _under(fr.filename, REPO):
            inner = fr
    where = f"{os.path.relpath(inner.filename, REPO)}:{inner.name}" if inner else "?"
    return f"{type(exc).__name__}@{where}"


def pkg(fn, *args, clause="raised", **kwargs):
    """Call into the package; an exception raised by the package becomes a Violation of `clause`."""
    try:
        return fn(*args, **kwargs)
    except Violation:
        raise
    except Exception as e:  # noqa
        if is_repo_exception(e):
            raise Violation(f"{clause}:{exc_signature(e)}", f"{type(e).__name__}: {str(e)[:200]}")
        raise


def load_repo():
    """Put the working tree under test first on sys.path and make sure that is what gets imported
    (the venv also holds an installed *copy* of the package, which must not be tested)."""
    global _loaded
    if _loaded:
        return
    if DEPS not in sys.path and os.path.isdir(DEPS):
        sys.path.append(DEPS)
    if sys.path[0] != REPO:
        sys.path.insert(0, REPO)
    import leuvenmapmatching as mm
    f = os.path.abspath(mm.__file__)
    if not f.startswith(REPO + os.sep):
        raise HarnessError(f"leuvenmapmatching imported from {f}, expected a tree under {REPO}")
    logging.getLogger(LOGGER_NAME).setLevel(logging.ERROR)
    _loaded = True


@contextlib.contextmanager
def quiet():
    """The SQLite backend prints to stdout; keep check output machine readable."""
    with contextlib.redirect_stdout(io.StringIO()):
        yield


def close(a, b, rtol=1e-9, atol=None):
    if a is None or b is None:
        return a is b
    if math.isinf(a) or math.isinf(b):
        return a == b
    if atol is None:
        atol = rtol
    return abs(a - b) <= max(atol, rtol * max(abs(a), abs(b)))


def canon_json(obj):
    return json.dumps(obj, sort_keys=True, separators=(",", ":"), default=_json_default)


def _json_default(o):
    try:
        import numpy as np
        if isinstance(o, np.generic):
            return o.item()
    except Exception:  # pragma: no cover
        pass
    if isinstance(o, (set, frozenset)):
        return sorted(o, key=repr)
    if isinstance(o, tuple):
        return list(o)
    return repr(o)


def case_hash(case):
    return hashlib.sha1(canon_json(case).encode()).hexdigest()[:16]


def _finite(o):
    if isinstance(o, float) and (math.isinf(o) or math.isnan(o)):
        return repr(o)  # strict JSON has no Infinity / NaN
    if isinstance(o, dict):
        return {k: _finite(v) for k, v in o.items()}
    if isinstance(o, list):
        return [_finite(v) for v in o]
    return o


def jsonable(obj):
    return _finite(json.loads(canon_json(obj)))


# ---------------------------------------------------------------------------------------------
# Known findings (committed file, read-only at run time)

def load_known_findings():
    fn = os.path.join(VERIF, "known_findings.json")
    if not os.path.exists(fn):
        return {}
    with open(fn) as f:
        data = json.load(f)
    return {e["id"]: e for e in data.get("findings", [])}


class Ctx:
    """Per-process statistics and the known-finding gate."""

    def __init__(self, prop_id, tier="quick"):
        self.prop_id = prop_id
        self.tier = tier
        self.evaluations = 0
        self.classes = collections.Counter()
        self.nontrivial = set()
        self.samples = []
        self.excluded = collections.Counter()
        self.known_seen = collections.OrderedDict()
        self.extra = {}
        self._kf = load_known_findings()
        self.max_samples = 3

    def open_finding(self, kf_id):
        e = self._kf.get(kf_id)
        return (e is not None and e.get("status") == "open" and
                (e.get("property") == self.prop_id or self.prop_id in e.get("also_seen_by", [])))

    def known(self, kf_id, what=None):
        """True (and counted) iff kf_id is an *open* entry of known_findings.json for this property."""
        if not self.open_finding(kf_id):
            return False
        self.excluded[kf_id] += 1
        self.known_seen.setdefault(kf_id, what or self._kf[kf_id].get("what", ""))
        return True

    def record(self, case, nontrivial, classes=(), summary=None):
        self.evaluations += 1
        for c in classes:
            self.classes[c] += 1
        if nontrivial:
            h = case_hash(case)
            if h not in self.nontrivial:
                self.nontrivial.add(h)
                if len(self.samples) < self.max_samples:
                    self.samples.append({"case": jsonable(case), "result": jsonable(summary)})

    def dump(self):
        return {
            "evaluations": self.evaluations,
            "classes": dict(self.classes),
            "nontrivial": sorted(self.nontrivial),
            "samples": self.samples,
            "excluded": dict(self.excluded),
            "known_seen": dict(self.known_seen),
            "extra": self.extra,
        }


# ---------------------------------------------------------------------------------------------
# Building the objects under test from a JSON case

def graph_dict(graph):
    """case graph (list of [label, [y, x], [nbrs]]) -> the dict InMemMap(graph=) expects (fresh lists)."""
    return {lab: ((loc[0], loc[1]), list(nbrs)) for lab, loc, nbrs in graph}


def graph_edges(graph):
    """Directed edges of the model, without self loops, in listing order, without duplicates."""
    seen, out = set(), []
    for lab, _loc, nbrs in graph:
        for n in nbrs:
            if n != lab and (lab, n) not in seen:
                seen.add((lab, n))
                out.append((lab, n))
    return out


def _mk_inmem(graph, latlon=False, linked=None, name="m", steps=None):
    """InMemMap holding the model graph.  With steps = {"first": k, "warm": [[location, radius], ...]} the map is built from
    the first k nodes, asked the warm-up spatial queries, and only then extended to the whole graph with add_node / add_edge
    (a map that is still growing while it is being used)."""
    load_repo()
    from leuvenmapmatching.map.inmem import InMemMap
    le = None
    if linked:
        le = {}
        for a, b in linked:
            le.setdefault(tuple(a), set()).add(tuple(b))
    if not steps:
        return InMemMap(name, graph=graph_dict(graph), use_latlon=latlon, use_rtree=False, linked_edges=le)
    k = max(1, min(len(graph), steps["first"]))
    first = {n[0] for n in graph[:k]}
    mp = InMemMap(name, graph={lab: ((loc[0], loc[1]), [x for x in nb if x in first]) for lab, loc, nb in graph[:k]},
                  use_latlon=latlon, use_rtree=False, linked_edges=le)
    for loc, radius in steps.get("warm", []):
        mp.nodes_closeto((loc[0], loc[1]), max_dist=radius)
        mp.edges_closeto((loc[0], loc[1]), max_dist=radius)
    for lab, loc, nb in graph[k:]:
        mp.add_node(lab, (loc[0], loc[1]))
    for lab, loc, nb in graph:
        for x in nb:
            if not (lab in first and x in first):
                mp.add_edge(lab, x)
    return mp


def _mk_sqlite(graph, dirname, latlon=False, name="m", plan=None):
    """SqliteMap holding the model graph.  Without a plan: bulk add_nodes + add_edges.  With a plan (gen.load_plan): the
    map is built call by call with the per-call flags - ["node", label, no_index], ["node_again", label, other_loc]
    (add_node of a known label with ignore_doubles=True: documented to be ignored), ["edge", a, b, no_index],
    ["reindex_nodes"], ["reindex_edges"], ["commit"] - and the documented obligation of the deferred modes (re-index what
    was added with no_index and never indexed since) is met at the end, exactly for what is still unindexed."""
    load_repo()
    from leuvenmapmatching.map.sqlite import SqliteMap
    with quiet():
        sm = SqliteMap(name, use_latlon=latlon, dir=dirname)
        if plan is None:
            sm.add_nodes([(lab, (loc[0], loc[1])) for lab, loc, _ in graph])
            sm.add_edges(graph_edges(graph))
            return sm
        loc = {n[0]: (n[1][0], n[1][1]) for n in graph}
        un_nodes, added, indexed = set(), set(), set()
        for op in plan:
            k = op[0]
            if k == "node":
                sm.add_node(op[1], loc[op[1]], no_index=bool(op[2]), no_commit=bool(op[3]))
                if op[2]:
                    un_nodes.add(op[1])
            elif k == "node_again":
                sm.add_node(op[1], (op[2][0], op[2][1]), ignore_doubles=True)
            elif k == "edge":
                sm.add_edge(op[1], op[2], no_index=bool(op[3]), no_commit=bool(op[4]))
                added.add((op[1], op[2]))
                if not op[3]:
                    indexed.add((op[1], op[2]))  # also repairs an edge that was first added unindexed
            elif k == "reindex_nodes":
                sm.reindex_nodes()
                un_nodes.clear()
            elif k == "reindex_edges":
                sm.reindex_edges()
                indexed |= added
            elif k == "commit":
                sm.db.commit()
        if un_nodes:
            sm.reindex_nodes()
        if added - indexed:
            sm.reindex_edges()
        sm.db.commit()
    return sm


FAMILIES = ("simple", "simple_n", "distance")
FAMILIES4 = ("simple", "simple_n", "distance", "nk")  # + NewsonKrummMatcher, used by the checks that need no reference model


def _mk_matcher(mapobj, cfg):
    """cfg: {'family': simple|simple_n|distance, **matcher kwargs}"""
    load_repo()
    from leuvenmapmatching.matcher.simple import SimpleMatcher
    from leuvenmapmatching.matcher.distance import DistanceMatcher
    kw = {k: v for k, v in cfg.items() if k not in ("family", "ne_maxnb")}
    fam = cfg["family"]
    if fam == "distance":
        m = DistanceMatcher(mapobj, **kw)
    elif fam == "nk":
        from leuvenmapmatching.matcher.newsonkrumm import NewsonKrummMatcher
        kw.pop("avoid_goingback", None)
        m = NewsonKrummMatcher(mapobj, **kw)
    else:
        m = SimpleMatcher(mapobj, only_edges=(fam == "simple"), **kw)
    if cfg.get("ne_maxnb") is not None:
        # public attribute (default 100): the maximal number of non-emitting states between two observations
        m.non_emitting_states_maxnb = cfg["ne_maxnb"]
    return m


def mk_inmem(graph, latlon=False, linked=None, name="m", steps=None):
    """InMemMap holding the model graph; an exception of the package while building it is a violation (clause load:...)."""
    return pkg(_mk_inmem, graph, latlon=latlon, linked=linked, name=name, steps=steps, clause="load")


def mk_sqlite(graph, dirname, latlon=False, name="m", plan=None):
    return pkg(_mk_sqlite, graph, dirname, latlon=latlon, name=name, plan=plan, clause="load")


mk_sqlite.__doc__ = _mk_sqlite.__doc__


def mk_matcher(mapobj, cfg):
    return pkg(_mk_matcher, mapobj, cfg, clause="construct")


mk_matcher.__doc__ = _mk_matcher.__doc__


def to_path(trace):
    return [tuple(p) for p in trace]


def canon(matcher, states, idx):
    """Canonical result of a match() call: (idx, #emitting on best path, best prob, keys, states)."""
    lb = matcher.lattice_best
    if not lb:
        return {"idx": idx, "n_emit": 0, "lp": None, "keys": [], "states": jsonable(states)}
    return {"idx": idx,
            "n_emit": sum(1 for m in lb if m.obs_ne == 0),
            "lp": float(lb[-1].logprob),
            "keys": [list(m.key) for m in lb],
            "states": jsonable(states)}


def best_emitting_lp(matcher, idx):
    vals = [float(m.logprob) for m in matcher.lattice[idx].values(0) if not m.stop]
    return max(vals) if vals else None


def lattice_entries(matcher):
    for i, col in matcher.lattice.items():
        for ne, d in enumerate(col.o):
            for key, m in d.items():
                yield i, ne, key, m
