"""Coverage-guided fuzzing bridge: the *same* Hypothesis property (strategy + oracle) of a property module
is driven by atheris/libFuzzer through `fuzz_one_input`, with the package's util/matcher modules
instrumented for coverage. A finding is an oracle violation, converted into a normal replay file.

parent:  run_atheris(pid, seed, scratch, runs)      -> report dict (same shape as a shard result)
child:   python -m lmmverif.fuzz <PID> <runs> <seed> <corpus> <out.json>
"""
import json
import os
import subprocess
import sys

from . import base


def run_atheris(pid, seed, scratch, runs=100000, include=("leuvenmapmatching.util",), seed_inputs=0, max_len=512):
    out = os.path.join(scratch, f"fuzz_{pid}.json")
    corpus = os.path.join(scratch, f"corpus_{pid}")
    os.makedirs(corpus, exist_ok=True)
    if seed_inputs:
        # fuzz_one_input consumes Hypothesis' choice sequence: large strategies reject short inputs before any instrumented
        # code runs, so libFuzzer never sees coverage to grow from. Start it from a few long pseudo-random byte strings
        # (a pure function of VERIF_SEED).
        import random
        rng = random.Random(seed * 7919 + 17)
        for i in range(seed_inputs):
            with open(os.path.join(corpus, f"seed_{i:02d}"), "wb") as f:
                f.write(bytes(rng.getrandbits(8) for _ in range(4096)))
    env = dict(os.environ)
    env["PYTHONPATH"] = base.VERIF + os.pathsep + base.DEPS + os.pathsep + env.get("PYTHONPATH", "")
    env.setdefault("PYTHONHASHSEED", "0")
    env["LMM_FUZZ_INCLUDE"] = ",".join(include)
    env["LMM_FUZZ_MAXLEN"] = str(max_len)
    cmd = [sys.executable, "-m", "lmmverif.fuzz", pid, str(runs), str(seed), corpus, out]
    empty = {"engine": "atheris-unavailable", "evaluations": 0, "classes": {}, "nontrivial": [], "samples": [],
             "excluded": {}, "known_seen": {}, "extra": {"fuzz": "unavailable"}, "failure": None}
    try:
        p = subprocess.run(cmd, cwd=scratch, env=env, stdout=subprocess.PIPE, stderr=subprocess.STDOUT, timeout=3600)
    except (OSError, subprocess.TimeoutExpired) as e:
        empty["extra"]["fuzz"] = f"unavailable: {e}"
        return empty
    if not os.path.exists(out):
        empty["extra"]["fuzz"] = "unavailable: " + p.stdout.decode(errors="replace")[-300:]
        return empty
    with open(out) as f:
        rep = json.load(f)
    rep["engine"] = "atheris"
    rep.setdefault("extra", {})["fuzz_runs"] = rep.get("hyp_examples", 0)
    rep["extra"]["fuzz_exit"] = p.returncode
    if rep.get("failure"):
        rep["failure"]["origin"] = f"atheris -runs={runs} -seed={seed} ({'empty corpus' if not seed_inputs else str(seed_inputs) + ' pseudo-random seed inputs'})"
    return rep


def _child(pid, runs, seed, corpus, out):
    sys.path.append(base.DEPS)
    sys.path.insert(0, base.REPO)
    import atheris
    include = [s for s in os.environ.get("LMM_FUZZ_INCLUDE", "leuvenmapmatching.util").split(",") if s]
    with atheris.instrument_imports(include=include):
        import leuvenmapmatching.util.dist_euclidean  # noqa
        import leuvenmapmatching.util.dist_latlon  # noqa
        import leuvenmapmatching.matcher.base  # noqa
        import leuvenmapmatching.matcher.distance  # noqa
        import leuvenmapmatching.matcher.simple  # noqa
        import leuvenmapmatching.map.inmem  # noqa
        import leuvenmapmatching.map.sqlite  # noqa
    base.load_repo()
    from hypothesis import given, settings, HealthCheck
    from .runner import load_prop
    mod = load_prop(pid)
    ctx = base.Ctx(pid, "thorough")
    state = {"n": 0, "failure": None}

    def dump():
        res = ctx.dump()
        res["failure"] = state["failure"]
        res["hyp_examples"] = state["n"]
        tmp = out + ".tmp"
        with open(tmp, "w") as f:
            json.dump(res, f)
        os.replace(tmp, out)

    @settings(database=None, deadline=None, suppress_health_check=list(HealthCheck))
    @given(mod.strategy("thorough"))
    def prop(case):
        try:
            mod.check_case(case, ctx)
        except base.Violation as v:
            if state["failure"] is None:
                state["failure"] = {"case": base.jsonable(case), "clause": v.clause, "msg": v.msg}
                dump()
            raise

    fuzz_one = prop.hypothesis.fuzz_one_input

    def one(data):
        state["n"] += 1
        try:
            fuzz_one(data)
        finally:
            if state["n"] % 2000 == 0 or state["n"] >= runs - 1:
                dump()

    dump()
    atheris.Setup([sys.argv[0], f"-runs={runs}", f"-seed={seed if seed > 0 else 1}", "-max_len=" + os.environ.get("LMM_FUZZ_MAXLEN", "512"),
                   "-print_final_stats=0", "-verbosity=0", corpus], one)
    atheris.Fuzz()


if __name__ == "__main__":
    a = sys.argv[1:]
    _child(a[0], int(a[1]), int(a[2]), a[3], a[4])
