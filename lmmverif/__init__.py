"""Property-based verification harness for wannesm/LeuvenMapMatching (see /verif/DESIGN.md)."""
