"""Entry point behind /verif/check: replay tier, sharded Hypothesis search, optional extra engines
(exhaustive enumeration, atheris), evidence writing, exit codes (0 ok / 1 violation / 2 harness)."""
import argparse
import glob
import importlib
import json
import os
import subprocess
import sys
import time
import traceback

from . import base
from .base import Violation, HarnessError, VERIF, EXIT_OK, EXIT_VIOLATION, EXIT_HARNESS

PROPS = ["C%02d" % i for i in range(1, 21)]


def load_prop(pid):
    if pid not in PROPS:
        raise HarnessError(f"unknown property {pid}")
    return importlib.import_module(f"lmmverif.props.{pid.lower()}")


def replay_dir(pid):
    return os.path.join(VERIF, "replays", pid)


def out_root():
    """Where evidence and new violation replays go (VERIF_OUT redirects them for sensitivity runs)."""
    return os.environ.get("VERIF_OUT") or VERIF


def write_replay(pid, case, clause, msg, origin):
    d = os.path.join(out_root(), "replays", pid)
    os.makedirs(d, exist_ok=True)
    h = base.case_hash(case)
    fn = os.path.join(d, f"violation_{h}.json")
    with open(fn, "w") as f:
        json.dump({"property": pid, "clause": clause, "message": msg, "origin": origin,
                   "case": base.jsonable(case)}, f, sort_keys=True)
        f.write("\n")
    return fn


def run_one_case(mod, case, ctx):
    """Run the oracle of `mod` on one concrete case. Returns None or (clause, msg)."""
    try:
        mod.check_case(case, ctx)
        return None
    except Violation as v:
        return (v.clause, v.msg)


def cmd_replay(pid, path):
    base.load_repo()
    mod = load_prop(pid)
    with open(path) as f:
        data = json.load(f)
    case = data["case"] if "case" in data else data
    ctx = base.Ctx(pid, "quick")
    res = run_one_case(mod, case, ctx)
    for kf, what in ctx.known_seen.items():
        print(f"KNOWN-FINDING: property={pid} {kf}: {what}")
    if res is None:
        print(f"REPLAY-OK property={pid} file={path}")
        return EXIT_OK
    print(f"replay failed: {res[0]}: {res[1]}")
    print(f"VIOLATION property={pid} replay={path}")
    return EXIT_VIOLATION


def run_replays(pid, mod, ctx):
    """Seconds-long regression tier: every committed replay input is run through the oracle first."""
    fails, n = [], 0
    for fn in sorted(glob.glob(os.path.join(replay_dir(pid), "*.json"))):
        if os.path.basename(fn).startswith("violation_"):
            continue  # output of an earlier failing run, not a committed regression input
        with open(fn) as f:
            data = json.load(f)
        case = data["case"] if "case" in data else data
        n += 1
        res = run_one_case(mod, case, ctx)
        if res is not None:
            fails.append((fn, res[0], res[1]))
    return n, fails


def spawn_shards(pid, tier, seed, nshards, scratch, examples=None):
    procs = []
    for s in range(nshards):
        out = os.path.join(scratch, f"shard_{s}.json")
        env = dict(os.environ)
        env.setdefault("PYTHONHASHSEED", "0")
        env["PYTHONPATH"] = VERIF + os.pathsep + env.get("PYTHONPATH", "")
        cmd = [sys.executable, "-m", "lmmverif.shard", pid, tier, str(seed), str(s), str(nshards), out]
        if examples is not None:
            cmd.append(str(examples))
        log = open(os.path.join(scratch, f"shard_{s}.log"), "w")
        procs.append((s, out, subprocess.Popen(cmd, cwd=VERIF, env=env, stdout=log, stderr=subprocess.STDOUT), log))
    results = []
    for s, out, p, log in procs:
        rc = p.wait()
        log.close()
        if rc != 0 or not os.path.exists(out):
            with open(os.path.join(scratch, f"shard_{s}.log")) as f:
                tail = f.read()[-3000:]
            raise HarnessError(f"shard {s} of {pid} died (rc={rc}):\n{tail}")
        with open(out) as f:
            results.append(json.load(f))
    return results


def merge(results):
    tot = {"evaluations": 0, "classes": {}, "nontrivial": set(), "samples": [], "excluded": {},
           "known_seen": {}, "extra": {}, "failures": [], "hyp_examples": 0}
    for r in results:
        tot["evaluations"] += r["evaluations"]
        tot["hyp_examples"] += r.get("hyp_examples", 0)
        for k, v in r["classes"].items():
            tot["classes"][k] = tot["classes"].get(k, 0) + v
        tot["nontrivial"].update(r["nontrivial"])
        for smp in r["samples"]:
            if len(tot["samples"]) < 4:
                tot["samples"].append(smp)
        for k, v in r["excluded"].items():
            tot["excluded"][k] = tot["excluded"].get(k, 0) + v
        for k, v in r["known_seen"].items():
            tot["known_seen"].setdefault(k, v)
        for k, v in r.get("extra", {}).items():
            if k.startswith("max_") and isinstance(v, (int, float)):
                tot["extra"][k] = max(tot["extra"].get(k, v), v)
            elif isinstance(v, (int, float)) and not isinstance(v, bool):
                tot["extra"][k] = tot["extra"].get(k, 0) + v
            else:
                tot["extra"].setdefault(k, v)
        if r.get("failure"):
            tot["failures"].append(r["failure"])
    return tot


def cmd_check(pid, tier, seed, nshards=None, examples=None):
    t0 = time.time()
    base.load_repo()
    mod = load_prop(pid)
    scratch = os.path.join(VERIF, ".scratch", f"{pid}_{os.getpid()}")
    os.makedirs(scratch, exist_ok=True)
    ctx = base.Ctx(pid, tier)
    violations = []  # (replay path, clause, msg)
    try:
        n_replays, fails = run_replays(pid, mod, ctx)
        for fn, clause, msg in fails:
            violations.append((fn, clause, msg))
        cfg = mod.BUDGET[tier]
        k = nshards or cfg.get("shards", 8)
        # coverage-guided engine (atheris), declared by the module as FUZZ = {tier: {...}}; runs beside the Hypothesis shards
        fuzz_cfg = getattr(mod, "FUZZ", {}).get(tier)
        fuzz_thread, fuzz_box = None, []
        if fuzz_cfg and examples is None:
            import threading
            from .fuzz import run_atheris
            fuzz_thread = threading.Thread(target=lambda: fuzz_box.append(run_atheris(pid, seed, scratch, **fuzz_cfg)))
            fuzz_thread.start()
        results = spawn_shards(pid, tier, seed, k, scratch, examples) if k > 0 else []
        if fuzz_thread is not None:
            fuzz_thread.join()
        # optional additional engines (exhaustive enumeration, fuzzing), run in the parent
        extra_reports = []
        for rep in fuzz_box:
            extra_reports.append(rep)
            results.append(rep)
        if hasattr(mod, "extra_engines"):
            for rep in mod.extra_engines(tier, seed, scratch):
                extra_reports.append(rep)
                results.append(rep)
        tot = merge(results + [dict(ctx.dump(), failure=None)])
        by_clause = {}
        for fl in sorted(tot["failures"], key=lambda f: (len(base.canon_json(f["case"])), base.canon_json(f["case"]))):
            by_clause.setdefault(fl["clause"], fl)  # smallest shrunk failure per violated clause
        for fl in by_clause.values():
            fn = write_replay(pid, fl["case"], fl["clause"], fl["msg"], fl.get("origin", "search"))
            violations.append((fn, fl["clause"], fl["msg"]))
        wall = time.time() - t0
        evidence = {
            "property_id": pid, "tier": tier, "seed": seed, "level": "exploration",
            "coverage": {
                "evaluations": tot["evaluations"] + n_replays,
                "distinct_nontrivial": len(tot["nontrivial"]),
                "rule": mod.RULE,
                "samples": tot["samples"] or [{"note": "no non-trivial sample recorded"}],
                "classes": dict(sorted(tot["classes"].items())),
                "excluded_known_finding": tot["excluded"],
                "replays_run": n_replays,
                "shards": k,
                "engines": sorted({"hypothesis"} | {r.get("engine") for r in extra_reports if r.get("engine")}),
                "extra": tot["extra"],
                "exhaustive": bool(getattr(mod, "EXHAUSTIVE", {}).get(tier, False)),
                "tolerances": getattr(mod, "TOLERANCES", {}),
            },
            "assumptions": list(getattr(mod, "ASSUMPTIONS", [])),
            "wall_s": round(wall, 2),
            "violations": len(violations),
        }
        try:
            import jsonschema
            with open("/root/.vp/EVIDENCE.schema.json") as f:
                schema = json.load(f)
            try:
                jsonschema.validate(evidence, schema)
            except jsonschema.ValidationError as e:
                if not violations:  # a failing run may stop before anything non-trivial was explored
                    raise HarnessError(f"evidence does not validate: {e.message}")
        except ImportError:
            pass
        except FileNotFoundError:
            pass
        os.makedirs(os.path.join(out_root(), "evidence"), exist_ok=True)
        with open(os.path.join(out_root(), "evidence", f"{pid}.json"), "w") as f:
            json.dump(evidence, f, indent=1, sort_keys=True)
        print(f"{pid} tier={tier} seed={seed}: evaluations={evidence['coverage']['evaluations']} "
              f"distinct_nontrivial={len(tot['nontrivial'])} wall={wall:.1f}s")
        cl = evidence["coverage"]["classes"]
        if cl:
            print("  classes: " + ", ".join(f"{k}={v}" for k, v in cl.items()))
        if tot["excluded"]:
            print("  excluded (known findings): " + ", ".join(f"{k}={v}" for k, v in tot["excluded"].items()))
        for kf, what in tot["known_seen"].items():
            print(f"KNOWN-FINDING: property={pid} {kf}: {what}")
        if violations:
            seen = set()
            for fn, clause, msg in violations:
                if fn in seen:
                    continue
                seen.add(fn)
                print(f"  violated clause: {clause}: {msg}")
                print(f"VIOLATION property={pid} replay={fn}")
            return EXIT_VIOLATION
        return EXIT_OK
    finally:
        import shutil
        shutil.rmtree(scratch, ignore_errors=True)


def main(argv=None):
    ap = argparse.ArgumentParser(prog="check")
    ap.add_argument("prop")
    ap.add_argument("--tier", default=os.environ.get("VERIF_TIER") or "quick", choices=["quick", "thorough"])
    ap.add_argument("--replay")
    ap.add_argument("--shards", type=int)
    ap.add_argument("--examples", type=int)
    args = ap.parse_args(argv)
    try:
        seed = int(os.environ.get("VERIF_SEED", "1") or "1")
    except ValueError:
        seed = 1
    try:
        if args.replay:
            return cmd_replay(args.prop, args.replay)
        return cmd_check(args.prop, args.tier, seed, args.shards, args.examples)
    except HarnessError as e:
        print(f"HARNESS-ERROR {e}", file=sys.stderr)
        return EXIT_HARNESS
    except Exception:
        traceback.print_exc()
        print("HARNESS-ERROR unexpected exception in the harness", file=sys.stderr)
        return EXIT_HARNESS


if __name__ == "__main__":
    sys.exit(main())
